(* Patch validation (pkg/versions/1_0/operationparser/patchvalidator/*.go, pkg/document/jwk.go)
   and original-document validation (docvalidator, didvalidator), over JSON trees.
   [validate_*] are code-shaped mirrors (same order of checks, early returns); [*_ok] are the
   declarative constraints written from the property text; they are proved equal.
   net/url is an oracle: [uri_ok s] = url.ParseRequestURI accepts s, [url_norm s] =
   Some (u.String()) when url.Parse accepts s. *)
From Coq Require Import NArith Arith String Ascii List Bool Lia.
From Sidetree Require Import Json.Json Sidetree.JsonPatch Sidetree.Composer.
Import ListNotations.
Open Scope string_scope.

(* ---- tables (agreement with the source: Agree/AgreeTables.v) ---- *)

Definition max_id_length : nat := 50.
Definition max_service_type_length : nat := 30.
Definition id_regexp_source : string := "^[A-Za-z0-9_-]+$".

Definition purposes_all : list string :=
  ["authentication"; "assertionMethod"; "keyAgreement"; "capabilityDelegation"; "capabilityInvocation"].

Definition key_types_general : list string :=
  ["Bls12381G2Key2020"; "JsonWebKey2020"; "EcdsaSecp256k1VerificationKey2019";
   "Ed25519VerificationKey2018"; "Ed25519VerificationKey2020"; "X25519KeyAgreementKey2019"].
Definition key_types_verification : list string :=
  ["Bls12381G2Key2020"; "JsonWebKey2020"; "EcdsaSecp256k1VerificationKey2019";
   "Ed25519VerificationKey2018"; "Ed25519VerificationKey2020"].
Definition key_types_agreement : list string :=
  ["Bls12381G2Key2020"; "JsonWebKey2020"; "EcdsaSecp256k1VerificationKey2019"; "X25519KeyAgreementKey2019"].

Definition key_types_for (purpose : string) : option (list string) :=
  if String.eqb purpose "keyAgreement" then Some key_types_agreement
  else if mem_str purpose purposes_all then Some key_types_verification
  else None.

Definition public_key_members : list string := ["type"; "id"; "purposes"; "publicKeyJwk"; "publicKeyBase58"].

(* ---- ids ---- *)

Definition id_char (c : ascii) : bool :=
  let n := N_of_ascii c in
  orb (orb (andb (65 <=? n)%N (n <=? 90)%N) (andb (97 <=? n)%N (n <=? 122)%N))
      (orb (andb (48 <=? n)%N (n <=? 57)%N) (orb (n =? 95)%N (n =? 45)%N)).

Fixpoint all_chars (p : ascii -> bool) (s : string) : bool :=
  match s with
  | EmptyString => true
  | String c r => andb (p c) (all_chars p r)
  end.

(* asciiRegex.MatchString: ^[A-Za-z0-9_-]+$ *)
Definition regex_match (s : string) : bool :=
  match s with EmptyString => false | _ => all_chars id_char s end.

(* validateID: mirror *)
Definition validate_id (id : string) : bool :=
  if Nat.ltb max_id_length (String.length id) then false
  else regex_match id.

(* spec: 1-50 characters of [A-Za-z0-9_-] *)
Definition id_ok (id : string) : bool :=
  andb (andb (Nat.leb 1 (String.length id)) (Nat.leb (String.length id) 50)) (all_chars id_char id).

Lemma validate_id_iff id : validate_id id = id_ok id.
Proof.
  unfold validate_id, id_ok, regex_match, max_id_length.
  destruct (Nat.ltb_spec 50 (String.length id)) as [H|H].
  - replace (String.length id <=? 50)%nat with false by (symmetry; apply Nat.leb_gt; lia).
    now rewrite andb_false_r.
  - replace (String.length id <=? 50)%nat with true by (symmetry; apply Nat.leb_le; lia).
    destruct id as [|c r]; [reflexivity|]. cbn [String.length Nat.leb andb]. reflexivity.
Qed.

Lemma mem_str_cons s a l : mem_str s (a :: l) = orb (String.eqb s a) (mem_str s l).
Proof. reflexivity. Qed.

Fixpoint nodup_str (l : list string) : bool :=
  match l with
  | [] => true
  | x :: r => andb (negb (mem_str x r)) (nodup_str r)
  end.

(* ---- JWK (document.JWK.Validate) ---- *)

Definition jwk_validate (o : option json) : bool :=
  match o with
  | Some (JObj m) =>
      let g k := string_entry (lookup k m) in
      if String.eqb (g "kty") "" then false
      else if String.eqb (g "kty") "RSA" then andb (negb (String.eqb (g "n") "")) (negb (String.eqb (g "e") ""))
      else andb (negb (String.eqb (g "crv") "")) (negb (String.eqb (g "x") ""))
  | _ => false                          (* absent or not an object: "key has to be in JWK format" *)
  end.

(* ---- public keys ---- *)

Definition has (k : string) (m : obj) : bool := match lookup k m with Some _ => true | None => false end.

(* validatePublicKeyProperties *)
Definition validate_key_properties (m : obj) : bool :=
  if negb (has "type" m) then false
  else if negb (has "id" m) then false
  else if negb (xorb (has "publicKeyJwk" m) (has "publicKeyBase58" m)) then false
  else forallb (fun k => mem_str k public_key_members) (keys m).

(* validateKeyPurposes *)
Definition validate_key_purposes (m : obj) : bool :=
  let ps := string_array (lookup "purposes" m) in
  if andb (has "purposes" m) (Nat.eqb (length ps) 0) then false
  else if Nat.ltb (length purposes_all) (length ps) then false
  else forallb (fun p => mem_str p purposes_all) ps.

(* validateKeyTypePurpose *)
Definition validate_key_type_purpose (m : obj) : bool :=
  let ps := string_array (lookup "purposes" m) in
  let ty := string_entry (lookup "type" m) in
  if andb (Nat.eqb (length ps) 0) (negb (mem_str ty key_types_general)) then false
  else forallb (fun p => match key_types_for p with Some l => mem_str ty l | None => false end) ps.

Definition key_material_ok (m : obj) : bool :=
  if jwk_validate (lookup "publicKeyJwk" m) then true
  else andb (negb (String.eqb (string_entry (lookup "publicKeyBase58" m)) ""))
            (negb (String.eqb (string_entry (lookup "type" m)) "JsonWebKey2020")).

(* validatePublicKeys: mirror with the running id set *)
Fixpoint validate_public_keys (seen : list string) (ks : list obj) : bool :=
  match ks with
  | [] => true
  | m :: r =>
      if negb (validate_key_properties m) then false
      else let kid := entry_id m in
      if negb (validate_id kid) then false
      else if mem_str kid seen then false
      else if negb (validate_key_purposes m) then false
      else if negb (validate_key_type_purpose m) then false
      else if negb (key_material_ok m) then false
      else validate_public_keys (kid :: seen) r
  end.

(* spec *)
Definition key_ok (m : obj) : bool :=
  has "type" m && has "id" m && xorb (has "publicKeyJwk" m) (has "publicKeyBase58" m) &&
  forallb (fun k => mem_str k public_key_members) (keys m) &&
  id_ok (entry_id m) && validate_key_purposes m && validate_key_type_purpose m && key_material_ok m.

Definition keys_ok (ks : list obj) : bool := forallb key_ok ks && nodup_str (map entry_id ks).

(* ---- services ---- *)

Section WithUrlOracle.
  Variable uri_ok : string -> bool.                 (* url.ParseRequestURI accepts *)
  Variable url_norm : string -> option string.      (* url.Parse(s).String() *)

  (* validateURI *)
  Definition validate_uri (u : string) : bool := andb (negb (String.eqb u "")) (uri_ok u).

  (* validateServiceEndpoint *)
  Definition validate_endpoint (o : option json) : bool :=
    match o with
    | None | Some JNull => false
    | Some (JStr u) => validate_uri u
    | Some (JArr l) => forallb (fun e => match e with JStr u => validate_uri u | _ => true end) l
    | Some _ => true
    end.

  Lemma endpoint_list_every_entry l u :
    validate_endpoint (Some (JArr l)) = true -> In (JStr u) l -> validate_uri u = true.
  Proof.
    cbn. intros H Hin. rewrite forallb_forall in H. exact (H (JStr u) Hin).
  Qed.

  Definition validate_service (m : obj) : bool :=
    let id := entry_id m in
    let ty := string_entry (lookup "type" m) in
    if String.eqb id "" then false
    else if negb (validate_id id) then false
    else if String.eqb ty "" then false
    else if Nat.ltb max_service_type_length (String.length ty) then false
    else validate_endpoint (lookup "serviceEndpoint" m).

  Fixpoint validate_services (seen : list string) (ss : list obj) : bool :=
    match ss with
    | [] => true
    | m :: r =>
        if negb (validate_service m) then false
        else if mem_str (entry_id m) seen then false
        else validate_services (entry_id m :: seen) r
    end.

  Definition service_ok (m : obj) : bool :=
    id_ok (entry_id m) &&
    (let ty := string_entry (lookup "type" m) in Nat.leb 1 (String.length ty) && Nat.leb (String.length ty) 30) &&
    validate_endpoint (lookup "serviceEndpoint" m).

  Definition services_ok (ss : list obj) : bool := forallb service_ok ss && nodup_str (map entry_id ss).

  (* ---- also known as ---- *)

  Fixpoint validate_aka (seen : list string) (uris : list string) : bool :=
    match uris with
    | [] => true
    | u :: r => match url_norm u with
                | None => false
                | Some n => if mem_str n seen then false else validate_aka (n :: seen) r
                end
    end.

  (* ---- ietf-json-patch ---- *)

  (* validateJSONPointer: rooted, and the first reference token (RFC 6901 unescaped) is not a
     protected member's name *)
  Definition pointer_first (p : string) : option string :=
    match split_path p with
    | _ :: x :: _ => Some (decode_key x)
    | _ => None
    end.

  Definition pointer_ok (p : string) : bool :=
    andb (is_prefix "/" p)
         (match pointer_first p with
          | Some t => andb (negb (String.eqb t "service")) (negb (String.eqb t "publicKey"))
          | None => true
          end).

  (* validateJSONPatches on the decoded operation list *)
  Definition validate_ietf_op (opj : json) : bool :=
    match opj with
    | JObj op =>
        match lookup "path" op with
        | Some (JStr p) =>
            if negb (pointer_ok p) then false else
            match lookup "from" op with
            | None | Some JNull => true
            | Some (JStr f) => pointer_ok f
            | Some _ => false
            end
        | _ => false
        end
    | _ => false
    end.

  (* getRequiredArray *)
  Definition required_array (v : json) : option (list json) :=
    match v with JArr (x :: r) => Some (x :: r) | _ => None end.

  (* patchvalidator.Validate *)
  Definition validate_patch (pj : json) : bool :=
    match pj with
    | JObj p =>
        match get_action p, get_value p with
        | Some a, Some v =>
            match a with
            | AReplace =>
                match v with
                | JObj m =>
                    forallb (fun k => mem_str k ["services"; "publicKeys"]) (keys m) &&
                    validate_public_keys [] (parse_objects (lookup "publicKeys" m)) &&
                    validate_services [] (parse_objects (lookup "services" m))
                | _ => false
                end
            | AJsonPatch =>
                match required_array v with
                | Some ops => forallb validate_ietf_op ops
                | None => false
                end
            | AAddPublicKeys =>
                match required_array v with
                | Some _ => validate_public_keys [] (parse_objects (Some v))
                | None => false
                end
            | ARemovePublicKeys | ARemoveServices =>
                match required_array v with
                | Some _ => forallb validate_id (string_array (Some v))
                | None => false
                end
            | AAddServices =>
                match required_array v with
                | Some _ => validate_services [] (parse_objects (Some v))
                | None => false
                end
            | AAddAlsoKnownAs | ARemoveAlsoKnownAs =>
                match required_array v with
                | Some _ => validate_aka [] (string_array (Some v))
                | None => false
                end
            end
        | _, _ => false
        end
    | _ => false
    end.

  (* ---- mirror = spec ---- *)

  Lemma validate_public_keys_spec ks : forall seen,
    validate_public_keys seen ks =
    forallb key_ok ks && nodup_str (map entry_id ks) && forallb (fun k => negb (mem_str (entry_id k) seen)) ks.
  Proof.
    induction ks as [|m r IH]; intros seen; cbn [validate_public_keys forallb map nodup_str]; [reflexivity|].
    unfold key_ok at 1. unfold validate_key_properties. rewrite validate_id_iff.
    destruct (has "type" m); cbn [negb andb]; [|reflexivity].
    destruct (has "id" m); cbn [negb andb]; [|reflexivity].
    destruct (xorb _ _); cbn [negb andb]; [|reflexivity].
    destruct (forallb _ (keys m)); cbn [negb andb]; [|reflexivity].
    destruct (id_ok (entry_id m)); cbn [negb andb]; [|reflexivity].
    destruct (mem_str (entry_id m) seen) eqn:Hs; cbn [negb andb].
    { now rewrite !andb_false_r. }
    destruct (validate_key_purposes m); cbn [negb andb]; [|reflexivity].
    destruct (validate_key_type_purpose m); cbn [negb andb]; [|reflexivity].
    destruct (key_material_ok m); cbn [negb andb]; [|reflexivity].
    rewrite IH.
    (* membership in (kid :: seen) splits into kid and seen *)
    assert (E : forallb (fun k => negb (mem_str (entry_id k) (entry_id m :: seen))) r =
                negb (mem_str (entry_id m) (map entry_id r)) && forallb (fun k => negb (mem_str (entry_id k) seen)) r).
    { clear. induction r as [|x r IH]; cbn [forallb map]; [reflexivity|].
      rewrite IH, !mem_str_cons. rewrite (String.eqb_sym (entry_id m) (entry_id x)).
      destruct (String.eqb (entry_id x) (entry_id m)); cbn [orb negb andb]; [reflexivity|].
      destruct (mem_str (entry_id m) (map entry_id r)); cbn [negb andb]; [now rewrite !andb_false_r|].
      reflexivity. }
    rewrite E.
    destruct (forallb key_ok r); cbn [andb]; [|reflexivity].
    destruct (nodup_str (map entry_id r)); cbn [andb];
      destruct (negb (mem_str (entry_id m) (map entry_id r))); cbn [andb]; reflexivity.
  Qed.

  Theorem validate_public_keys_iff ks : validate_public_keys [] ks = keys_ok ks.
  Proof.
    rewrite validate_public_keys_spec. unfold keys_ok.
    replace (forallb (fun k => negb (mem_str (entry_id k) [])) ks) with true; [now rewrite andb_true_r|].
    symmetry. apply forallb_forall. reflexivity.
  Qed.

  Lemma validate_service_iff m : validate_service m = service_ok m.
  Proof.
    unfold validate_service, service_ok. rewrite validate_id_iff.
    destruct (String.eqb_spec (entry_id m) "") as [E|NE].
    - rewrite E. reflexivity.
    - destruct (id_ok (entry_id m)); cbn [negb andb]; [|reflexivity].
      unfold max_service_type_length.
      remember (string_entry (lookup "type" m)) as ty eqn:Ety.
      destruct (String.eqb_spec ty "") as [E0|N0].
      + rewrite E0. reflexivity.
      + assert (L : (1 <= String.length ty)%nat) by (destruct ty; [congruence|cbn; lia]).
        destruct (Nat.leb_spec 1 (String.length ty)); [|lia].
        destruct (Nat.ltb_spec 30 (String.length ty)); destruct (Nat.leb_spec (String.length ty) 30); try lia; reflexivity.
  Qed.

  Lemma validate_services_spec ss : forall seen,
    validate_services seen ss =
    forallb service_ok ss && nodup_str (map entry_id ss) && forallb (fun k => negb (mem_str (entry_id k) seen)) ss.
  Proof.
    induction ss as [|m r IH]; intros seen; cbn [validate_services forallb map nodup_str]; [reflexivity|].
    rewrite validate_service_iff.
    destruct (service_ok m); cbn [negb andb]; [|reflexivity].
    destruct (mem_str (entry_id m) seen) eqn:Hs; cbn [negb andb].
    { now rewrite !andb_false_r. }
    rewrite IH.
    assert (E : forallb (fun k => negb (mem_str (entry_id k) (entry_id m :: seen))) r =
                negb (mem_str (entry_id m) (map entry_id r)) && forallb (fun k => negb (mem_str (entry_id k) seen)) r).
    { clear. induction r as [|x r IH]; cbn [forallb map]; [reflexivity|].
      rewrite IH, !mem_str_cons. rewrite (String.eqb_sym (entry_id m) (entry_id x)).
      destruct (String.eqb (entry_id x) (entry_id m)); cbn [orb negb andb]; [reflexivity|].
      destruct (mem_str (entry_id m) (map entry_id r)); cbn [negb andb]; [now rewrite !andb_false_r|].
      reflexivity. }
    rewrite E.
    destruct (forallb service_ok r); cbn [andb]; [|reflexivity].
    destruct (nodup_str (map entry_id r)); cbn [andb];
      destruct (negb (mem_str (entry_id m) (map entry_id r))); cbn [andb]; reflexivity.
  Qed.

  Theorem validate_services_iff ss : validate_services [] ss = services_ok ss.
  Proof.
    rewrite validate_services_spec. unfold services_ok.
    replace (forallb (fun k => negb (mem_str (entry_id k) [])) ss) with true; [now rewrite andb_true_r|].
    symmetry. apply forallb_forall. reflexivity.
  Qed.
End WithUrlOracle.

(* ---- original documents ---- *)

(* docvalidator.IsValidOriginalDocument / patch.validateDocument *)
Definition valid_original_document (doc : obj) : bool := String.eqb (entry_id doc) "".

(* didvalidator.IsValidOriginalDocument *)
Definition valid_original_did_document (doc : obj) : bool :=
  andb (String.eqb (entry_id doc) "")
       (match lookup "@context" doc with Some (JArr (_ :: _)) => false | _ => true end).

(* ---- the finite key type x purpose matrix, exhaustively ---- *)

Definition matrix_expected (ty purpose : string) : bool :=
  if String.eqb purpose "keyAgreement"
  then mem_str ty ["Bls12381G2Key2020"; "JsonWebKey2020"; "EcdsaSecp256k1VerificationKey2019"; "X25519KeyAgreementKey2019"]
  else mem_str ty ["Bls12381G2Key2020"; "JsonWebKey2020"; "EcdsaSecp256k1VerificationKey2019";
                   "Ed25519VerificationKey2018"; "Ed25519VerificationKey2020"].

Lemma key_type_purpose_matrix :
  forallb (fun ty => forallb (fun p =>
     Bool.eqb (validate_key_type_purpose [("type", JStr ty); ("purposes", JArr [JStr p])]) (matrix_expected ty p))
     purposes_all) ("UnknownType" :: key_types_general) = true.
Proof. vm_compute. reflexivity. Qed.
