(* C03, last sentence: "The same request denotes the same DID whatever its JSON member order".

   Two create requests that differ only in member order (at any nesting depth) get the same
   verdict from the parser and, when accepted, the same suffix, equivalent suffix data and an
   equivalent delta.

   Side conditions, each forced by the proof and each about what Go's decoders do:
   - number tokens are canonical ([wfnum]: the request carries no number spelled in a
     non-canonical way; numbers occur only inside patch values and the anchor origin);
   - no object carries the same name twice ([ndk]);
   - at the three levels decoded into structs (request, suffix data, delta) no two names are equal
     up to ASCII case ([NoDup (fnames _)]): encoding/json matches struct fields
     case-insensitively and lets the last match win, so for such a request member order *does*
     decide the result ([member_order_matters_refuted] below);
   - the anchor origin validator cannot tell member orders apart. *)
From Coq Require Import ZArith NArith String List Bool Permutation Lia.
From Sidetree Require Import Base.Sha2 Json.Json Json.Jcs Json.JcsProps Json.JcsRoundTrip Json.Parse
  Sidetree.Composer Sidetree.Validator Sidetree.Protocol Sidetree.Hashing Sidetree.Parser
  Sidetree.JequivDecode Sidetree.ValidatorJequiv.
Import ListNotations.
Open Scope string_scope.

Lemma field_pred (P : json -> Prop) name m : Forall (fun kv => P (snd kv)) m -> forall v, field name m = Some v -> P v.
Proof.
  induction 1 as [|[k x] r Hx _ IH]; intros v H; [discriminate|].
  rewrite field_cons in H. destruct (field name r) as [y|].
  - injection H as <-. now apply IH.
  - destruct (String.eqb _ _); [|discriminate]. injection H as <-. exact Hx.
Qed.

Lemma wfnum_members m : wfnum (JObj m) -> Forall (fun kv => wfnum (snd kv)) m.
Proof. intros W. now inversion W. Qed.
Lemma ndk_members m : ndk (JObj m) -> Forall (fun kv => ndk (snd kv)) m.
Proof. intros W. now inversion W. Qed.

Lemma calc_mh_jequiv a b code : jequiv a b -> calc_mh a code = calc_mh b code.
Proof. intros E. unfold calc_mh, calc_model_mh. now rewrite (jcs_canonical _ _ E). Qed.

Lemma valid_mh_jequiv a b h : jequiv a b -> valid_mh a h = valid_mh b h.
Proof.
  intros E. unfold valid_mh, is_valid_model_mh. destruct (get_mh_code h) as [c|]; [|reflexivity].
  change (calc_model_mh sha256 sha512) with calc_mh. now rewrite (calc_mh_jequiv _ _ c E).
Qed.

Lemma same_members_refl l : Forall2 same_members l l.
Proof. induction l as [|[k v] r IH]; constructor; [split; [reflexivity|apply jequiv_refl]|exact IH]. Qed.

Lemma jequiv_obj_same m m' : Forall2 same_members m m' -> jequiv (JObj m) (JObj m').
Proof. intros F. econstructor; [apply Permutation_refl|exact F]. Qed.

(* ---- suffix data ---- *)

Definition sd_rel (s s' : suffix_data) : Prop :=
  sd_delta_hash s = sd_delta_hash s' /\ sd_recovery_c s = sd_recovery_c s' /\ sd_type s = sd_type s' /\
  jequiv (sd_origin s) (sd_origin s').

Lemma img_suffix_data_rel s s' : sd_rel s s' -> jequiv (img_suffix_data s) (img_suffix_data s').
Proof.
  intros [E1 [E2 [E3 E4]]]. unfold img_suffix_data. rewrite E1, E2, E3. apply jequiv_obj_same.
  repeat apply Forall2_app; try apply same_members_refl.
  destruct (sd_origin s), (sd_origin s'); inversion E4; subst;
    try constructor; try (split; [reflexivity|exact E4]); constructor.
Qed.

Definition o2_rel {A} (R : A -> A -> Prop) (x y : option (option A)) : Prop :=
  match x, y with
  | Some (Some a), Some (Some b) => R a b
  | Some None, Some None => True
  | None, None => True
  | _, _ => False
  end.

Definition inner_nodup (o : option json) : Prop := forall m, o = Some (JObj m) -> NoDup (fnames m).
Definition owf (o : option json) : Prop := match o with Some v => wfnum v | None => True end.
Definition ondk (o : option json) : Prop := match o with Some v => ndk v | None => True end.

Lemma dec_any_rel o o' : opt_jequiv o o' -> owf o ->
  exists v v', dec_any o = Some v /\ dec_any o' = Some v' /\ jequiv v v'.
Proof.
  intros E W. destruct o as [v|], o' as [v'|]; cbn in E; try tauto.
  - exists v, v'. cbn. rewrite (normalise_wfnum _ W), (normalise_wfnum _ (jequiv_wfnum _ _ E W)). auto.
  - exists JNull, JNull. cbn. repeat split; constructor.
Qed.

Lemma dec_suffix_data_rel o o' : opt_jequiv o o' -> owf o -> inner_nodup o ->
  o2_rel sd_rel (dec_suffix_data o) (dec_suffix_data o').
Proof.
  intros E W ND. destruct o as [v|], o' as [v'|]; cbn in E; try tauto; try exact I.
  inversion E; subst; try exact I.
  specialize (ND _ eq_refl). cbn in W. pose proof (wfnum_members _ W) as Wm.
  cbn [dec_suffix_data].
  rewrite <- (dec_string_respects _ _ (field_opt_jequiv "deltaHash" _ _ ND E)).
  rewrite <- (dec_string_respects _ _ (field_opt_jequiv "recoveryCommitment" _ _ ND E)).
  rewrite <- (dec_string_respects _ _ (field_opt_jequiv "type" _ _ ND E)).
  assert (Wo : owf (field "anchorOrigin" m1)).
  { unfold owf. destruct (field "anchorOrigin" m1) eqn:Ef; [|exact I]. eapply (field_pred wfnum); eauto. }
  destruct (dec_any_rel _ _ (field_opt_jequiv "anchorOrigin" _ _ ND E) Wo) as [a [a' [-> [-> Ea]]]].
  destruct (dec_string (field "deltaHash" m1)); [|exact I].
  destruct (dec_string (field "recoveryCommitment" m1)); [|exact I].
  destruct (dec_string (field "type" m1)); [|exact I].
  cbn. repeat split; auto.
Qed.

(* ---- delta ---- *)

Definition delta_rel (d d' : delta) : Prop :=
  d_update_c d = d_update_c d' /\ Forall2 vrel (d_patches d) (d_patches d').

Definition patch_shape (v : json) : bool := match v with JObj _ | JNull => true | _ => false end.

Lemma dec_patches_wf l : Forall wfnum l ->
  dec_patches (Some (JArr l)) = if forallb patch_shape l then Some l else None.
Proof.
  cbn [dec_patches]. induction 1 as [|x l Wx _ IH]; [reflexivity|]. cbn [forallb].
  destruct x; cbn [patch_shape andb]; try reflexivity.
  - rewrite IH. destruct (forallb patch_shape l); reflexivity.
  - rewrite (normalise_wfnum _ Wx), IH. destruct (forallb patch_shape l); reflexivity.
Qed.

Lemma patch_shape_rel l l' : Forall2 jequiv l l' -> forallb patch_shape l = forallb patch_shape l'.
Proof. induction 1 as [|x y l l' E _ IH]; cbn; [reflexivity|]. rewrite IH. inversion E; subst; reflexivity. Qed.

Lemma dec_patches_rel o o' : opt_jequiv o o' -> owf o -> ondk o ->
  match dec_patches o, dec_patches o' with
  | Some l, Some l' => Forall2 vrel l l'
  | None, None => True
  | _, _ => False
  end.
Proof.
  intros E W N. destruct o as [v|], o' as [v'|]; cbn in E; try tauto; try constructor.
  inversion E; subst; try exact I; try constructor.
  cbn in W, N. inversion W as [| | | |? Wl|]; subst. inversion N as [| | | |? Nl|]; subst.
  match goal with F : Forall2 jequiv l1 l2 |- _ => rename F into Fl end.
  assert (W2 : Forall wfnum l2).
  { clear - Fl Wl. induction Fl; inversion Wl; subst; constructor; eauto using jequiv_wfnum. }
  rewrite (dec_patches_wf _ Wl), (dec_patches_wf _ W2), <- (patch_shape_rel _ _ Fl).
  destruct (forallb patch_shape l1); [|exact I].
  clear - Fl Nl. induction Fl; inversion Nl; subst; constructor; [split; assumption|auto].
Qed.

Lemma dec_delta_rel o o' : opt_jequiv o o' -> owf o -> ondk o -> inner_nodup o ->
  o2_rel delta_rel (dec_delta o) (dec_delta o').
Proof.
  intros E W N ND. destruct o as [v|], o' as [v'|]; cbn in E; try tauto; try exact I.
  inversion E; subst; try exact I.
  specialize (ND _ eq_refl). cbn in W, N.
  cbn [dec_delta].
  rewrite <- (dec_string_respects _ _ (field_opt_jequiv "updateCommitment" _ _ ND E)).
  assert (Wp : owf (field "patches" m1)).
  { unfold owf. destruct (field "patches" m1) eqn:Ef; [|exact I]. eapply (field_pred wfnum); [apply wfnum_members; exact W|exact Ef]. }
  assert (Np : ondk (field "patches" m1)).
  { unfold ondk. destruct (field "patches" m1) eqn:Ef; [|exact I]. eapply (field_pred ndk); [apply ndk_members; exact N|exact Ef]. }
  pose proof (dec_patches_rel _ _ (field_opt_jequiv "patches" _ _ ND E) Wp Np) as Hp.
  destruct (dec_string (field "updateCommitment" m1)); [|exact I].
  destruct (dec_patches (field "patches" m1)), (dec_patches (field "patches" m2)); try tauto.
  cbn. split; [reflexivity|exact Hp].
Qed.

Lemma vrel_jequiv l l' : Forall2 vrel l l' -> Forall2 jequiv l l'.
Proof. induction 1 as [|x y l l' [_ E] _ IH]; constructor; auto. Qed.

Lemma img_delta_rel d d' : delta_rel d d' -> jequiv (img_delta d) (img_delta d').
Proof.
  intros [E F]. unfold img_delta. rewrite E. apply jequiv_obj_same.
  apply Forall2_app; [apply same_members_refl|].
  pose proof (vrel_jequiv _ _ F) as Fj.
  inversion Fj; subst; repeat constructor; cbn; auto.
Qed.

Lemma img_delta_opt_rel od od' :
  match od, od' with Some d, Some d' => delta_rel d d' | None, None => True | _, _ => False end ->
  jequiv (img_delta_opt od) (img_delta_opt od').
Proof. destruct od, od'; try tauto; intros H; [now apply img_delta_rel|constructor]. Qed.

Section Respell.
  Variable cfg : protocol.
  Variable uri_ok : string -> bool.
  Variable url_norm : string -> option string.
  Variable origin_ok : json -> bool.
  Variable time_ok : Z -> Z -> bool.
  Hypothesis origin_ok_order : forall a b, jequiv a b -> origin_ok a = origin_ok b.

  Lemma validate_delta_rel od od' :
    match od, od' with Some d, Some d' => delta_rel d d' | None, None => True | _, _ => False end ->
    validate_delta cfg uri_ok url_norm od = validate_delta cfg uri_ok url_norm od'.
  Proof.
    destruct od as [d|], od' as [d'|]; try tauto; try reflexivity. intros R. pose proof (img_delta_rel _ _ R) as Ei.
    destruct R as [E F]. unfold validate_delta, delta_size_ok. rewrite <- E, <- (jcs_canonical _ _ Ei).
    assert (Ef : forallb (fun p => andb (patch_enabled cfg p) (validate_patch uri_ok url_norm p)) (d_patches d) =
                 forallb (fun p => andb (patch_enabled cfg p) (validate_patch uri_ok url_norm p)) (d_patches d')).
    { clear - F. induction F as [|x y l l' R _ IH]; cbn [forallb]; [reflexivity|].
      now rewrite IH, (patch_enabled_rel cfg _ _ R), (validate_patch_rel uri_ok url_norm _ _ R). }
    destruct (d_patches d) as [|x l], (d_patches d') as [|y l']; try (inversion F; fail); [reflexivity|].
    rewrite Ef. reflexivity.
  Qed.

  (* the three struct-decoded levels carry no two names equal up to case *)
  Definition struct_levels (m : obj) : Prop :=
    NoDup (fnames m) /\ inner_nodup (field "suffixData" m) /\ inner_nodup (field "delta" m).

  Definition parsed_rel (p p' : parsed) : Prop :=
    p_type p = p_type p' /\ p_suffix p = p_suffix p' /\ jequiv (p_origin p) (p_origin p') /\
    jequiv (img_delta_opt (p_delta p)) (img_delta_opt (p_delta p')) /\
    match p_suffix_data p, p_suffix_data p' with
    | Some s, Some s' => sd_rel s s'
    | None, None => True
    | _, _ => False
    end.

  Theorem parse_create_member_order m m' batch :
    jequiv (JObj m) (JObj m') -> wfnum (JObj m) -> ndk (JObj m) -> struct_levels m ->
    match parse_create cfg uri_ok url_norm origin_ok m batch, parse_create cfg uri_ok url_norm origin_ok m' batch with
    | Some p, Some p' => parsed_rel p p'
    | None, None => True
    | _, _ => False
    end.
  Proof.
    intros E W N [ND [NDs NDd]].
    pose proof (wfnum_members _ W) as Wm. pose proof (ndk_members _ N) as Nm.
    assert (Ws : owf (field "suffixData" m)).
    { unfold owf. destruct (field "suffixData" m) eqn:Ef; [|exact I]. eapply (field_pred wfnum); eauto. }
    assert (Wd : owf (field "delta" m)).
    { unfold owf. destruct (field "delta" m) eqn:Ef; [|exact I]. eapply (field_pred wfnum); eauto. }
    assert (Nd : ondk (field "delta" m)).
    { unfold ondk. destruct (field "delta" m) eqn:Ef; [|exact I]. eapply (field_pred ndk); eauto. }
    pose proof (dec_suffix_data_rel _ _ (field_opt_jequiv "suffixData" _ _ ND E) Ws NDs) as Hs.
    pose proof (dec_delta_rel _ _ (field_opt_jequiv "delta" _ _ ND E) Wd Nd NDd) as Hd.
    unfold parse_create.
    rewrite <- (dec_string_respects _ _ (field_opt_jequiv "type" _ _ ND E)).
    destruct (dec_string (field "type" m)); [|exact I].
    destruct (dec_suffix_data (field "suffixData" m)) as [[sd|]|], (dec_suffix_data (field "suffixData" m')) as [[sd'|]|];
      cbn in Hs; try tauto; try (destruct (dec_delta (field "delta" m)), (dec_delta (field "delta" m')); cbn in Hd; tauto).
    destruct (dec_delta (field "delta" m)) as [od|], (dec_delta (field "delta" m')) as [od'|]; cbn in Hd; try tauto;
      try (destruct od; contradiction); try (destruct od'; contradiction).
    assert (Ro : match od, od' with Some d, Some d' => delta_rel d d' | None, None => True | _, _ => False end).
    { destruct od, od'; exact Hd. }
    pose proof (img_suffix_data_rel _ _ Hs) as Ei. pose proof (img_delta_opt_rel _ _ Ro) as Ed.
    destruct Hs as [E1 [E2 [E3 E4]]].
    rewrite <- E1, <- E2, <- (origin_ok_order _ _ E4), <- (validate_delta_rel _ _ Ro), <- (valid_mh_jequiv _ _ _ Ed).
    assert (Eu : match od with Some d => d_update_c d | None => "" end = match od' with Some d => d_update_c d | None => "" end).
    { destruct od, od'; try tauto. exact (proj1 Ro). }
    rewrite <- Eu.
    destruct (negb (validate_multihash cfg (sd_recovery_c sd) && validate_multihash cfg (sd_delta_hash sd))); [exact I|].
    match goal with |- context [if negb ?c then _ else _] => destruct (negb c) end; [exact I|].
    destruct (algs cfg) as [|a rest]; [exact I|].
    rewrite <- (calc_mh_jequiv _ _ a Ei).
    destruct (calc_mh (img_suffix_data sd) a); [|exact I].
    unfold parsed_rel. cbn. repeat split; auto.
  Qed.
End Respell.

(* ---- the side condition on names equal up to case is necessary ---- *)

(* suffix data carrying "recoveryCommitment" and "RecoveryCommitment": encoding/json lets the
   later one win, so the two member orders are accepted with different suffixes.  The same two
   requests, replayed on the implementation, give two different DIDs (known finding of C03). *)
Definition case_variant_request (first_lower : bool) : option obj :=
  match calc_mh (JStr "recovery key one") 18%N, calc_mh (JStr "recovery key two") 18%N, calc_mh (JStr "delta") 18%N with
  | Some c1, Some c2, Some dh =>
      let lower := ("recoveryCommitment", JStr c1) in
      let upper := ("RecoveryCommitment", JStr c2) in
      let sd := if first_lower then [("deltaHash", JStr dh); lower; upper] else [("deltaHash", JStr dh); upper; lower] in
      Some [("type", JStr "create"); ("suffixData", JObj sd)]
  | _, _, _ => None
  end.

Definition ex_cfg : protocol :=
  Build_protocol 0 [18%Z] 10000 2500 100 1700 500 "GZIP" 1000000 2500000 1000000 10000000
    ["replace"] ["EdDSA"] ["Ed25519"] 0 16 3.

Theorem member_order_matters_refuted :
  exists m m', jequiv (JObj m) (JObj m') /\ wfnum (JObj m) /\ ndk (JObj m) /\
    match parse_create ex_cfg (fun _ => true) (fun s => Some s) (fun _ => true) m true,
          parse_create ex_cfg (fun _ => true) (fun s => Some s) (fun _ => true) m' true with
    | Some p, Some p' => p_suffix p <> p_suffix p'
    | _, _ => False
    end.
Proof.
  destruct (case_variant_request true) as [m|] eqn:Em; [|vm_compute in Em; discriminate].
  destruct (case_variant_request false) as [m'|] eqn:Em'; [|vm_compute in Em'; discriminate].
  exists m, m'. vm_compute in Em, Em'. injection Em as <-. injection Em' as <-.
  split.
  { econstructor; [apply Permutation_refl|]. constructor; [split; [reflexivity|constructor]|].
    constructor; [|constructor]. split; [reflexivity|].
    econstructor; [apply perm_skip, perm_swap|]. repeat constructor. }
  split. { repeat constructor. }
  split. { repeat constructor; cbn; intuition discriminate. }
  vm_compute. discriminate.
Qed.

(* ---- on bytes: what Parser.Parse reports ---- *)

Section RespellBytes.
  Variable cfg : protocol.
  Variable uri_ok : string -> bool.
  Variable url_norm : string -> option string.
  Variable origin_ok : json -> bool.
  Variable time_ok : Z -> Z -> bool.
  Hypothesis origin_ok_order : forall a b, jequiv a b -> origin_ok a = origin_ok b.

  (* two spellings of one create request, both within the operation size limit: the same verdict
     and, when accepted, the same type, suffix and DID and an equivalent anchor origin *)
  Theorem same_request_same_did ns b b' m m' :
    (Z.of_nat (String.length b) <= P_MaxOperationSize cfg)%Z ->
    (Z.of_nat (String.length b') <= P_MaxOperationSize cfg)%Z ->
    top_object b = Some m -> top_object b' = Some m' ->
    jequiv (JObj m) (JObj m') -> wfnum (JObj m) -> ndk (JObj m) -> struct_levels m ->
    dec_string (field "type" m) = Some "create" ->
    match parse cfg uri_ok url_norm origin_ok time_ok ns b, parse cfg uri_ok url_norm origin_ok time_ok ns b' with
    | Some (ty, sfx, id, o), Some (ty', sfx', id', o') => ty = ty' /\ sfx = sfx' /\ id = id' /\ jequiv o o'
    | None, None => True
    | _, _ => False
    end.
  Proof.
    intros S S' T T' E W N L Ty.
    pose proof (parse_create_member_order cfg uri_ok url_norm origin_ok origin_ok_order m m' false E W N L) as H.
    unfold parse, parse_operation.
    replace (P_MaxOperationSize cfg <? Z.of_nat (String.length b))%Z with false by (symmetry; apply Z.ltb_ge; lia).
    replace (P_MaxOperationSize cfg <? Z.of_nat (String.length b'))%Z with false by (symmetry; apply Z.ltb_ge; lia).
    rewrite T, T'.
    rewrite <- (dec_string_respects _ _ (field_opt_jequiv "type" _ _ (proj1 L) E)), Ty.
    cbn [String.eqb Ascii.eqb Bool.eqb].
    change (String.eqb "create" "create") with true. cbv iota.
    destruct (parse_create cfg uri_ok url_norm origin_ok m false) as [p|],
             (parse_create cfg uri_ok url_norm origin_ok m' false) as [p'|]; try tauto.
    destruct H as [H1 [H2 [H3 _]]]. rewrite H1, H2. auto.
  Qed.
End RespellBytes.
