(* Operation applier (pkg/versions/1_0/operationapplier/operationapplier.go).

   The mirror is factored as in DESIGN section 4/C01: everything the applier derives from the
   operation bytes (parse verdicts, signature verdict, delta-hash verdict, delta validity,
   the signed window, commitments, anchor origin, patches) is an [opview]; [apply] is the
   statement-by-statement mirror of applyCreate/Update/Recover/DeactivateOperation over that
   view.  The document composer is a parameter (instantiated with the composer mirror for
   execution). *)
From Coq Require Import ZArith String List Bool.
From Sidetree Require Import Base.GoInt Json.Json Sidetree.Protocol Sidetree.Window.
Import ListNotations.
Open Scope Z_scope.

Inductive optype := TCreate | TUpdate | TRecover | TDeactivate | TOther.

Definition optype_eqb (a b : optype) : bool :=
  match a, b with
  | TCreate, TCreate | TUpdate, TUpdate | TRecover, TRecover | TDeactivate, TDeactivate | TOther, TOther => true
  | _, _ => false
  end.

(* protocol.ResolutionModel: all 15 fields.  rm_doc = None is Go's nil document. *)
Record rmodel := {
  rm_doc : option obj;
  rm_created : Z;
  rm_updated : Z;
  rm_last_time : Z;
  rm_last_num : Z;
  rm_last_ver : Z;
  rm_update_c : string;
  rm_recovery_c : string;
  rm_deactivated : bool;
  rm_origin : json;               (* JNull = nil interface *)
  rm_equiv : list string;
  rm_canon : string;
  rm_version : string;
  rm_published : list Z;          (* opaque references, carried along *)
  rm_unpublished : list Z
}.

Definition empty_rm (pub unpub : list Z) : rmodel :=
  {| rm_doc := None; rm_created := 0; rm_updated := 0; rm_last_time := 0; rm_last_num := 0;
     rm_last_ver := 0; rm_update_c := ""; rm_recovery_c := ""; rm_deactivated := false;
     rm_origin := JNull; rm_equiv := []; rm_canon := ""; rm_version := "";
     rm_published := pub; rm_unpublished := unpub |}.

(* What the applier learns from the request bytes of one anchored operation. *)
Record opview := {
  v_parse_ok : bool;        (* type-specific parse in batch mode (incl. reveal = mh(jcs key)) *)
  v_signed_ok : bool;       (* ParseSignedDataFor... succeeded *)
  v_sig_ok : bool;          (* VerifyJWS under the key carried in the signed data *)
  v_suffix_ok : bool;       (* deactivate: signed did suffix = operation suffix *)
  v_delta_hash_ok : bool;   (* IsValidModelMultihash(delta, [signed|suffixData].deltaHash) *)
  v_delta_valid : bool;     (* ValidateDelta *)
  v_update_c : string;      (* delta.updateCommitment *)
  v_recovery_c : string;    (* suffixData / signed recovery commitment *)
  v_origin : json;          (* suffixData / signed anchor origin *)
  v_from : Z;               (* signed anchorFrom *)
  v_until : Z;              (* signed anchorUntil *)
  v_patches : list json
}.

Record anchored := {
  a_type : optype;
  a_time : Z;
  a_num : Z;
  a_ver : Z;
  a_canon : string;
  a_equiv : list string;
  a_view : opview
}.

Section Applier.
  Variable cfg : protocol.
  Variable compose : obj -> list json -> option obj.

  Definition in_win (v : opview) (t : Z) : bool := verify_range_p cfg (v_from v) (v_until v) t.

  (* ---- mirror ---- *)

  Definition apply_create (a : anchored) (rm : rmodel) : option rmodel :=
    let v := a_view a in
    match rm_doc rm with
    | Some _ => None
    | None =>
      if negb (v_parse_ok v) then None else
      let result := {|
        rm_doc := Some []; rm_created := a_time a; rm_updated := 0;
        rm_last_time := a_time a; rm_last_num := a_num a; rm_last_ver := a_ver a;
        rm_update_c := ""; rm_recovery_c := v_recovery_c v; rm_deactivated := false;
        rm_origin := v_origin v; rm_equiv := a_equiv a; rm_canon := a_canon a;
        rm_version := a_canon a; rm_published := rm_published rm; rm_unpublished := rm_unpublished rm |} in
      if negb (v_delta_hash_ok v) then Some result else
      if negb (v_delta_valid v) then Some result else
      let result1 := {|
        rm_doc := rm_doc result; rm_created := rm_created result; rm_updated := rm_updated result;
        rm_last_time := rm_last_time result; rm_last_num := rm_last_num result; rm_last_ver := rm_last_ver result;
        rm_update_c := v_update_c v; rm_recovery_c := rm_recovery_c result; rm_deactivated := false;
        rm_origin := rm_origin result; rm_equiv := rm_equiv result; rm_canon := rm_canon result;
        rm_version := rm_version result; rm_published := rm_published result; rm_unpublished := rm_unpublished result |} in
      match compose [] (v_patches v) with
      | None => Some result1
      | Some d => Some {|
        rm_doc := Some d; rm_created := rm_created result1; rm_updated := rm_updated result1;
        rm_last_time := rm_last_time result1; rm_last_num := rm_last_num result1; rm_last_ver := rm_last_ver result1;
        rm_update_c := rm_update_c result1; rm_recovery_c := rm_recovery_c result1; rm_deactivated := false;
        rm_origin := rm_origin result1; rm_equiv := rm_equiv result1; rm_canon := rm_canon result1;
        rm_version := rm_version result1; rm_published := rm_published result1; rm_unpublished := rm_unpublished result1 |}
      end
    end.

  Definition apply_update (a : anchored) (rm : rmodel) : option rmodel :=
    let v := a_view a in
    match rm_doc rm with
    | None => None
    | Some doc =>
      if negb (v_parse_ok v) then None else
      if negb (v_signed_ok v) then None else
      if negb (v_delta_hash_ok v) then None else
      if negb (v_sig_ok v) then None else
      if negb (v_delta_valid v) then None else
      let result := {|
        rm_doc := Some doc; rm_created := rm_created rm; rm_updated := a_time a;
        rm_last_time := a_time a; rm_last_num := a_num a; rm_last_ver := a_ver a;
        rm_update_c := v_update_c v; rm_recovery_c := rm_recovery_c rm; rm_deactivated := false;
        rm_origin := rm_origin rm; rm_equiv := rm_equiv rm; rm_canon := rm_canon rm;
        rm_version := a_canon a; rm_published := rm_published rm; rm_unpublished := rm_unpublished rm |} in
      if negb (in_win v (a_time a)) then Some result else
      match compose doc (v_patches v) with
      | None => Some result
      | Some d => Some {|
        rm_doc := Some d; rm_created := rm_created result; rm_updated := rm_updated result;
        rm_last_time := rm_last_time result; rm_last_num := rm_last_num result; rm_last_ver := rm_last_ver result;
        rm_update_c := rm_update_c result; rm_recovery_c := rm_recovery_c result; rm_deactivated := false;
        rm_origin := rm_origin result; rm_equiv := rm_equiv result; rm_canon := rm_canon result;
        rm_version := rm_version result; rm_published := rm_published result; rm_unpublished := rm_unpublished result |}
      end
    end.

  Definition apply_deactivate (a : anchored) (rm : rmodel) : option rmodel :=
    let v := a_view a in
    match rm_doc rm with
    | None => None
    | Some _ =>
      if negb (v_parse_ok v) then None else
      if negb (v_signed_ok v) then None else
      if negb (v_suffix_ok v) then None else
      if negb (v_sig_ok v) then None else
      if negb (in_win v (a_time a)) then None else
      Some {|
        rm_doc := Some []; rm_created := rm_created rm; rm_updated := a_time a;
        rm_last_time := a_time a; rm_last_num := a_num a; rm_last_ver := a_ver a;
        rm_update_c := ""; rm_recovery_c := ""; rm_deactivated := true;
        rm_origin := rm_origin rm; rm_equiv := rm_equiv rm; rm_canon := rm_canon rm;
        rm_version := a_canon a; rm_published := rm_published rm; rm_unpublished := rm_unpublished rm |}
    end.

  Definition apply_recover (a : anchored) (rm : rmodel) : option rmodel :=
    let v := a_view a in
    match rm_doc rm with
    | None => None
    | Some _ =>
      if negb (v_parse_ok v) then None else
      if negb (v_signed_ok v) then None else
      if negb (v_sig_ok v) then None else
      let result := {|
        rm_doc := Some []; rm_created := rm_created rm; rm_updated := a_time a;
        rm_last_time := a_time a; rm_last_num := a_num a; rm_last_ver := a_ver a;
        rm_update_c := ""; rm_recovery_c := v_recovery_c v; rm_deactivated := false;
        rm_origin := v_origin v; rm_equiv := a_equiv a; rm_canon := a_canon a;
        rm_version := a_canon a; rm_published := rm_published rm; rm_unpublished := rm_unpublished rm |} in
      if negb (v_delta_hash_ok v) then Some result else
      if negb (v_delta_valid v) then Some result else
      let result1 := {|
        rm_doc := rm_doc result; rm_created := rm_created result; rm_updated := rm_updated result;
        rm_last_time := rm_last_time result; rm_last_num := rm_last_num result; rm_last_ver := rm_last_ver result;
        rm_update_c := v_update_c v; rm_recovery_c := rm_recovery_c result; rm_deactivated := false;
        rm_origin := rm_origin result; rm_equiv := rm_equiv result; rm_canon := rm_canon result;
        rm_version := rm_version result; rm_published := rm_published result; rm_unpublished := rm_unpublished result |} in
      if negb (in_win v (a_time a)) then Some result1 else
      match compose [] (v_patches v) with
      | None => Some result1
      | Some d => Some {|
        rm_doc := Some d; rm_created := rm_created result1; rm_updated := rm_updated result1;
        rm_last_time := rm_last_time result1; rm_last_num := rm_last_num result1; rm_last_ver := rm_last_ver result1;
        rm_update_c := rm_update_c result1; rm_recovery_c := rm_recovery_c result1; rm_deactivated := false;
        rm_origin := rm_origin result1; rm_equiv := rm_equiv result1; rm_canon := rm_canon result1;
        rm_version := rm_version result1; rm_published := rm_published result1; rm_unpublished := rm_unpublished result1 |}
      end
    end.

  (* Applier.Apply: None = (nil, error) *)
  Definition apply (a : anchored) (rm : rmodel) : option rmodel :=
    match a_type a with
    | TCreate => apply_create a rm
    | TUpdate => apply_update a rm
    | TDeactivate => apply_deactivate a rm
    | TRecover => apply_recover a rm
    | TOther => None
    end.

  (* The caller-side fold the property describes: a refused operation leaves the previous
     state in force. *)
  Definition step (rm : rmodel) (a : anchored) : rmodel :=
    match apply a rm with Some rm' => rm' | None => rm end.

  Definition run (rm : rmodel) (hist : list anchored) : rmodel := fold_left step hist rm.

  (* ---- spec: the Sidetree v1 rules, written from the property text ---- *)

  (* Is the operation authorised / well-formed enough to be accepted at all? *)
  Definition accepted (a : anchored) (rm : rmodel) : bool :=
    let v := a_view a in
    match a_type a with
    | TCreate => andb (match rm_doc rm with None => true | Some _ => false end) (v_parse_ok v)
    | TUpdate => andb (match rm_doc rm with None => false | Some _ => true end)
                   (andb (v_parse_ok v) (andb (v_signed_ok v) (andb (v_delta_hash_ok v) (andb (v_sig_ok v) (v_delta_valid v)))))
    | TRecover => andb (match rm_doc rm with None => false | Some _ => true end)
                   (andb (v_parse_ok v) (andb (v_signed_ok v) (v_sig_ok v)))
    | TDeactivate => andb (match rm_doc rm with None => false | Some _ => true end)
                   (andb (v_parse_ok v) (andb (v_signed_ok v) (andb (v_suffix_ok v) (andb (v_sig_ok v) (in_win v (a_time a))))))
    | TOther => false
    end.

  (* "as far as its delta is hash-bound and valid" *)
  Definition delta_usable (v : opview) : bool := andb (v_delta_hash_ok v) (v_delta_valid v).

  (* The document prescribed after an accepted operation. *)
  Definition spec_doc (a : anchored) (rm : rmodel) : option obj :=
    let v := a_view a in
    match a_type a with
    | TCreate =>
        if delta_usable v then
          match compose [] (v_patches v) with Some d => Some d | None => Some [] end
        else Some []
    | TRecover =>
        if andb (delta_usable v) (in_win v (a_time a)) then
          match compose [] (v_patches v) with Some d => Some d | None => Some [] end
        else Some []
    | TUpdate =>
        match rm_doc rm with
        | Some doc =>
            if in_win v (a_time a) then
              match compose doc (v_patches v) with Some d => Some d | None => Some doc end
            else Some doc
        | None => None
        end
    | TDeactivate => Some []
    | TOther => rm_doc rm
    end.

  Definition spec_state (a : anchored) (rm : rmodel) : rmodel :=
    let v := a_view a in
    let resets := match a_type a with TCreate | TRecover => true | _ => false end in
    {| rm_doc := spec_doc a rm;
       rm_created := match a_type a with TCreate => a_time a | _ => rm_created rm end;
       rm_updated := match a_type a with TCreate => 0 | _ => a_time a end;
       rm_last_time := a_time a;
       rm_last_num := a_num a;
       rm_last_ver := a_ver a;
       rm_update_c := match a_type a with
                      | TCreate | TRecover => if delta_usable v then v_update_c v else ""
                      | TUpdate => v_update_c v
                      | _ => "" end;
       rm_recovery_c := match a_type a with
                        | TCreate | TRecover => v_recovery_c v
                        | TUpdate => rm_recovery_c rm
                        | _ => "" end;
       rm_deactivated := match a_type a with TDeactivate => true | _ => false end;
       rm_origin := if resets then v_origin v else rm_origin rm;
       rm_equiv := if resets then a_equiv a else rm_equiv rm;
       rm_canon := if resets then a_canon a else rm_canon rm;
       rm_version := a_canon a;
       rm_published := rm_published rm;
       rm_unpublished := rm_unpublished rm |}.

  Definition spec_apply (a : anchored) (rm : rmodel) : option rmodel :=
    if accepted a rm then Some (spec_state a rm) else None.

  Definition spec_step (rm : rmodel) (a : anchored) : rmodel :=
    match spec_apply a rm with Some rm' => rm' | None => rm end.

  Definition spec_run (rm : rmodel) (hist : list anchored) : rmodel := fold_left spec_step hist rm.

  (* ---- refinement ---- *)

  Lemma apply_refines_spec a rm : apply a rm = spec_apply a rm.
  Proof.
    unfold apply, spec_apply, accepted, spec_state, spec_doc, delta_usable.
    destruct a as [ty t n ver canon eq v]; cbn [a_type a_view a_time a_num a_ver a_canon a_equiv].
    destruct ty.
    - (* create *)
      unfold apply_create; cbn [a_type a_view a_time a_num a_ver a_canon a_equiv].
      destruct (rm_doc rm); cbn; [reflexivity|].
      destruct (v_parse_ok v); cbn; [|reflexivity].
      destruct (v_delta_hash_ok v); cbn; [|reflexivity].
      destruct (v_delta_valid v); cbn; [|reflexivity].
      destruct (compose [] (v_patches v)); reflexivity.
    - (* update *)
      unfold apply_update; cbn [a_type a_view a_time a_num a_ver a_canon a_equiv].
      destruct (rm_doc rm) as [doc|]; cbn; [|reflexivity].
      destruct (v_parse_ok v); cbn; [|reflexivity].
      destruct (v_signed_ok v); cbn; [|reflexivity].
      destruct (v_delta_hash_ok v); cbn; [|reflexivity].
      destruct (v_sig_ok v); cbn; [|reflexivity].
      destruct (v_delta_valid v); cbn; [|reflexivity].
      destruct (in_win v t); cbn; [|reflexivity].
      destruct (compose doc (v_patches v)); reflexivity.
    - (* recover *)
      unfold apply_recover; cbn [a_type a_view a_time a_num a_ver a_canon a_equiv].
      destruct (rm_doc rm) as [doc|]; cbn; [|reflexivity].
      destruct (v_parse_ok v); cbn; [|reflexivity].
      destruct (v_signed_ok v); cbn; [|reflexivity].
      destruct (v_sig_ok v); cbn; [|reflexivity].
      destruct (v_delta_hash_ok v); cbn; [|reflexivity].
      destruct (v_delta_valid v); cbn; [|reflexivity].
      destruct (in_win v t); cbn; [|reflexivity].
      destruct (compose [] (v_patches v)); reflexivity.
    - (* deactivate *)
      unfold apply_deactivate; cbn [a_type a_view a_time a_num a_ver a_canon a_equiv].
      destruct (rm_doc rm) as [doc|]; cbn; [|reflexivity].
      destruct (v_parse_ok v); cbn; [|reflexivity].
      destruct (v_signed_ok v); cbn; [|reflexivity].
      destruct (v_suffix_ok v); cbn; [|reflexivity].
      destruct (v_sig_ok v); cbn; [|reflexivity].
      destruct (in_win v t); cbn; reflexivity.
    - reflexivity.
  Qed.

  Lemma step_refines_spec rm a : step rm a = spec_step rm a.
  Proof. unfold step, spec_step. now rewrite apply_refines_spec. Qed.

  Theorem run_refines_spec hist : forall rm, run rm hist = spec_run rm hist.
  Proof.
    unfold run, spec_run. induction hist as [|a hist IH]; intros rm; cbn [fold_left]; [reflexivity|].
    rewrite step_refines_spec. apply IH.
  Qed.

  (* ---- corollaries named in the property ---- *)

  Lemma refused_keeps_state rm a : apply a rm = None -> step rm a = rm.
  Proof. unfold step. now intros ->. Qed.

  Lemma create_only_on_empty a rm rm' :
    a_type a = TCreate -> apply a rm = Some rm' -> rm_doc rm = None.
  Proof.
    intros Ht. unfold apply. rewrite Ht. unfold apply_create.
    destruct (rm_doc rm); [discriminate|reflexivity].
  Qed.

  Lemma noncreate_needs_existing a rm rm' :
    a_type a <> TCreate -> apply a rm = Some rm' -> rm_doc rm <> None.
  Proof.
    intros Ht. unfold apply. destruct (a_type a); try congruence;
      unfold apply_update, apply_recover, apply_deactivate; destruct (rm_doc rm); congruence.
  Qed.

  Lemma accepted_result_has_doc a rm rm' : apply a rm = Some rm' -> rm_doc rm' <> None.
  Proof.
    rewrite apply_refines_spec. unfold spec_apply.
    destruct (accepted a rm) eqn:Acc; [|discriminate]. intros E; injection E as <-.
    unfold spec_state, spec_doc; cbn [rm_doc]. unfold accepted in Acc.
    destruct (a_type a); try discriminate Acc.
    - destruct (delta_usable (a_view a)); [destruct (compose [] _)|]; discriminate.
    - destruct (rm_doc rm); [|discriminate Acc].
      destruct (in_win _ _); [destruct (compose _ _)|]; discriminate.
    - destruct (andb (delta_usable _) _); [destruct (compose [] _)|]; discriminate.
    - discriminate.
  Qed.

  Lemma bookkeeping_follows_accepted a rm rm' :
    apply a rm = Some rm' ->
    rm_last_time rm' = a_time a /\ rm_last_num rm' = a_num a /\ rm_last_ver rm' = a_ver a /\
    rm_version rm' = a_canon a /\
    rm_published rm' = rm_published rm /\ rm_unpublished rm' = rm_unpublished rm.
  Proof.
    rewrite apply_refines_spec. unfold spec_apply.
    destruct (accepted a rm); [|discriminate]. intros E; injection E as <-. cbn. auto 10.
  Qed.

  Lemma deactivate_clears a rm rm' :
    a_type a = TDeactivate -> apply a rm = Some rm' ->
    rm_doc rm' = Some [] /\ rm_update_c rm' = "" /\ rm_recovery_c rm' = "" /\ rm_deactivated rm' = true.
  Proof.
    intros Ht. rewrite apply_refines_spec. unfold spec_apply.
    destruct (accepted a rm); [|discriminate]. intros E; injection E as <-.
    unfold spec_state, spec_doc; cbn. rewrite Ht. auto.
  Qed.


  Lemma degraded_update_keeps_document a rm rm' doc :
    a_type a = TUpdate -> rm_doc rm = Some doc -> compose doc (v_patches (a_view a)) = None ->
    apply a rm = Some rm' -> rm_doc rm' = Some doc.
  Proof.
    intros Ht Hd Hc. rewrite apply_refines_spec. unfold spec_apply.
    destruct (accepted a rm); [|discriminate]. intros E; injection E as <-.
    unfold spec_state, spec_doc; cbn. rewrite Ht, Hd, Hc. destruct (in_win _ _); reflexivity.
  Qed.

  (* ---- C02: no state change without authorisation ---- *)

  Theorem accept_implies_authorised a rm rm' :
    apply a rm = Some rm' ->
    match a_type a with
    | TUpdate => v_parse_ok (a_view a) = true /\ v_signed_ok (a_view a) = true /\ v_sig_ok (a_view a) = true
                 /\ v_delta_hash_ok (a_view a) = true /\ v_delta_valid (a_view a) = true
    | TRecover => v_parse_ok (a_view a) = true /\ v_signed_ok (a_view a) = true /\ v_sig_ok (a_view a) = true
    | TDeactivate => v_parse_ok (a_view a) = true /\ v_signed_ok (a_view a) = true /\ v_sig_ok (a_view a) = true
                     /\ v_suffix_ok (a_view a) = true
    | TCreate => v_parse_ok (a_view a) = true
    | TOther => False
    end.
  Proof.
    rewrite apply_refines_spec. unfold spec_apply.
    destruct (accepted a rm) eqn:Acc; [|discriminate]. intros _.
    unfold accepted in Acc. destruct (a_type a); try discriminate;
      repeat (apply andb_prop in Acc; destruct Acc as [? Acc]); auto 10.
  Qed.


  Lemma unauthorised_changes_nothing a rm :
    (a_type a = TUpdate \/ a_type a = TRecover \/ a_type a = TDeactivate) ->
    (v_parse_ok (a_view a) = false \/ v_signed_ok (a_view a) = false \/ v_sig_ok (a_view a) = false) ->
    step rm a = rm.
  Proof.
    intros Ht Hv. unfold step. rewrite apply_refines_spec. unfold spec_apply.
    assert (E : accepted a rm = false).
    { unfold accepted. destruct Ht as [Ht|[Ht|Ht]]; rewrite Ht;
        destruct (rm_doc rm); cbn; try reflexivity;
        destruct Hv as [Hv|[Hv|Hv]]; rewrite Hv; cbn;
        rewrite ?Bool.andb_false_r; try reflexivity;
        destruct (v_parse_ok (a_view a)); cbn; try reflexivity;
        destruct (v_signed_ok (a_view a)); cbn; try reflexivity;
        destruct (v_delta_hash_ok (a_view a)); cbn; try reflexivity;
        destruct (v_suffix_ok (a_view a)); cbn; reflexivity. }
    now rewrite E.
  Qed.

  (* Document content (beyond the empty document) comes from the delta only when the delta is
     hash-bound and valid. *)
  Theorem doc_from_delta_needs_binding a rm rm' :
    apply a rm = Some rm' ->
    (a_type a = TCreate \/ a_type a = TRecover) ->
    delta_usable (a_view a) = false ->
    rm_doc rm' = Some [] /\ rm_update_c rm' = "".
  Proof.
    rewrite apply_refines_spec. unfold spec_apply.
    destruct (accepted a rm); [|discriminate]. intros E; injection E as <-.
    intros [Ht|Ht] Hd; unfold spec_state, spec_doc; cbn; rewrite Ht, Hd; cbn; auto.
  Qed.

  (* ---- C09: effect of the window on each operation type ---- *)

  Theorem update_out_of_window a rm rm' :
    a_type a = TUpdate -> apply a rm = Some rm' -> in_win (a_view a) (a_time a) = false ->
    rm_doc rm' = rm_doc rm /\ rm_update_c rm' = v_update_c (a_view a).
  Proof.
    intros Ht. rewrite apply_refines_spec. unfold spec_apply.
    destruct (accepted a rm) eqn:Acc; [|discriminate]. intros E; injection E as <-. intros W.
    unfold spec_state, spec_doc; cbn. rewrite Ht, W. unfold accepted in Acc. rewrite Ht in Acc.
    destruct (rm_doc rm); [auto|discriminate].
  Qed.

  Theorem recover_out_of_window a rm rm' :
    a_type a = TRecover -> apply a rm = Some rm' -> in_win (a_view a) (a_time a) = false ->
    rm_doc rm' = Some [] /\ rm_recovery_c rm' = v_recovery_c (a_view a) /\
    rm_update_c rm' = (if delta_usable (a_view a) then v_update_c (a_view a) else "").
  Proof.
    intros Ht. rewrite apply_refines_spec. unfold spec_apply.
    destruct (accepted a rm); [|discriminate]. intros E; injection E as <-. intros W.
    unfold spec_state, spec_doc; cbn. rewrite Ht, W, Bool.andb_false_r. auto.
  Qed.

  Theorem deactivate_out_of_window a rm :
    a_type a = TDeactivate -> in_win (a_view a) (a_time a) = false -> apply a rm = None.
  Proof.
    intros Ht W. rewrite apply_refines_spec. unfold spec_apply, accepted. rewrite Ht, W.
    destruct (rm_doc rm); cbn; rewrite ?Bool.andb_false_r; reflexivity.
  Qed.

  Theorem in_window_update_applies a rm doc d :
    a_type a = TUpdate -> rm_doc rm = Some doc -> accepted a rm = true ->
    in_win (a_view a) (a_time a) = true -> compose doc (v_patches (a_view a)) = Some d ->
    exists rm', apply a rm = Some rm' /\ rm_doc rm' = Some d.
  Proof.
    intros Ht Hd Acc W C. rewrite apply_refines_spec. unfold spec_apply. rewrite Acc.
    eexists; split; [reflexivity|]. unfold spec_state, spec_doc; cbn. now rewrite Ht, Hd, W, C.
  Qed.
End Applier.

(* The applier's behaviour depends on the protocol only through MaxOperationTimeDelta. *)
Lemma apply_param_independence p q compose a rm :
  same_time_delta p q -> apply p compose a rm = apply q compose a rm.
Proof.
  intros H. unfold apply, apply_update, apply_recover, apply_deactivate, in_win.
  destruct (a_type a); try reflexivity;
    rewrite (window_param_independence p q _ _ _ H); reflexivity.
Qed.
