(* Where the pinned json-patch library does follow RFC 6902: add, remove and replace of an
   existing member, addressed through object members only (every value on the way is a non-null
   object).  On this class the library mirror (JsonPatch.v) and the RFC specification
   (Rfc6902.v) give the same result; outside it the deviations are listed findings. *)
From Coq Require Import ZArith String List Bool Ascii.
From Sidetree Require Import Json.Json Sidetree.JsonPatch Sidetree.Composer Sidetree.Rfc6902.
Import ListNotations.
Open Scope string_scope.

Definition conv (r : pres json) : option json := match r with POk d => Some d | _ => None end.

(* every token leads from an object to a non-null object; the last value is an object *)
Fixpoint obj_chain (v : json) (toks : list string) : Prop :=
  match toks with
  | [] => exists m, v = JObj m
  | t :: r => exists m m', v = JObj m /\ lookup t m = Some (JObj m') /\ obj_chain (JObj m') r
  end.

Section AtTarget.
  Variable g : json -> string -> option json.           (* RFC action on (parent, last token) *)
  Variable f : json -> string -> pres (json * unit).    (* library action *)
  Hypothesis fg : forall m key, conv (pbind (f (JObj m) key) (fun r => POk (fst r))) = g (JObj m) key.

  Lemma at_container_rfc parts : forall v key, obj_chain v (map decode_key parts) ->
    conv (pbind (at_container parts v (fun c => f c key)) (fun r => POk (fst r))) =
    rfc_at_parent v (map decode_key parts ++ [key])%list g.
  Proof.
    induction parts as [|p rest IH]; intros v key H; cbn [map app at_container].
    - destruct H as [m ->]. cbn [rfc_at_parent]. apply fg.
    - destruct H as [m [m' [-> [Hl Hc]]]].
      assert (Hd : descend (JObj m) p = POk (JObj m')). { unfold descend. cbn [c_get pbind]. now rewrite Hl. }
      rewrite Hd. cbn [pbind]. specialize (IH (JObj m') key Hc).
      assert (Hne : exists t r, (map decode_key rest ++ [key])%list = t :: r) by (destruct (map decode_key rest); cbn; eauto).
      destruct Hne as [t [r Hne]]. cbn [rfc_at_parent]. rewrite Hne, <- Hne, Hl, <- IH.
      destruct (at_container rest (JObj m') (fun c => f c key)) as [[c' u]| | |]; reflexivity.
  Qed.
End AtTarget.

(* pointers "/t1/.../tn": what the two sides make of them *)
Lemma pointer_tokens path rest : split_path path = "" :: rest -> rest <> [] -> is_prefix "/" path = true ->
  split_pointer path = Some (removelast rest, decode_key (last rest "")) /\
  rfc_tokens path = Some (map decode_key (removelast rest) ++ [decode_key (last rest "")])%list.
Proof.
  intros Hs Hne Hp. split.
  - unfold split_pointer. rewrite Hs. destruct rest; [congruence|reflexivity].
  - unfold rfc_tokens. destruct path as [|c path']; [discriminate|]. cbn [is_prefix] in Hp.
    destruct (Ascii.eqb_spec "/" c) as [<-|]; [|discriminate]. rewrite Hs. f_equal.
    rewrite (app_removelast_last "" Hne) at 1. rewrite map_app. reflexivity.
Qed.

(* the pointer addresses a member of an object reached through objects only *)
Definition member_path (doc : json) (path : string) : Prop :=
  exists rest, split_path path = "" :: rest /\ rest <> [] /\ is_prefix "/" path = true /\
               obj_chain doc (map decode_key (removelast rest)).

Lemma app_last_nonempty {A} (l : list A) (x : A) : exists t r, (l ++ [x])%list = t :: r.
Proof. destruct l; cbn; eauto. Qed.

Section Ops.
  Variable doc : json.
  Variable op : obj.
  Variable path : string.
  Hypothesis Hpath : lookup "path" op = Some (JStr path).
  Hypothesis Hmp : member_path doc path.

  Lemma op_str_path : op_str op "path" = path.  Proof. unfold op_str. now rewrite Hpath. Qed.
  Lemma rfc_op_path : rfc_op_str op "path" = Some path.  Proof. unfold rfc_op_str. now rewrite Hpath. Qed.

  Theorem add_conforms x : lookup "op" op = Some (JStr "add") -> lookup "value" op = Some x ->
    conv (apply_op doc (JObj op)) = rfc_apply_op doc (JObj op).
  Proof.
    intros Hop Hv. destruct Hmp as [rest [Hs [Hne [Hp Hc]]]]. destruct (pointer_tokens path rest Hs Hne Hp) as [Esp Etk].
    unfold apply_op, rfc_apply_op. assert (Ek : op_str op "op" = "add") by (unfold op_str; now rewrite Hop).
    assert (Ek' : rfc_op_str op "op" = Some "add") by (unfold rfc_op_str; now rewrite Hop).
    rewrite Ek, Ek', rfc_op_path, Hv. cbn [String.eqb Ascii.eqb Bool.eqb].
    unfold do_add, with_target, rfc_add. rewrite op_str_path, Esp, Etk. unfold op_value. rewrite Hv. cbn [node].
    destruct (app_last_nonempty (map decode_key (removelast rest)) (decode_key (last rest ""))) as [t [r E]]. rewrite E, <- E.
    apply (at_container_rfc (fun p t => rfc_add_at p t x) (fun c key => pbind (c_add c key x) (fun c' => POk (c', tt)))); [|exact Hc].
    intros m key. reflexivity.
  Qed.

  Theorem remove_conforms : lookup "op" op = Some (JStr "remove") ->
    conv (apply_op doc (JObj op)) = rfc_apply_op doc (JObj op).
  Proof.
    intros Hop. destruct Hmp as [rest [Hs [Hne [Hp Hc]]]]. destruct (pointer_tokens path rest Hs Hne Hp) as [Esp Etk].
    unfold apply_op, rfc_apply_op. assert (Ek : op_str op "op" = "remove") by (unfold op_str; now rewrite Hop).
    assert (Ek' : rfc_op_str op "op" = Some "remove") by (unfold rfc_op_str; now rewrite Hop).
    rewrite Ek, Ek', rfc_op_path. cbn [String.eqb Ascii.eqb Bool.eqb].
    unfold do_remove, with_target, rfc_remove. rewrite op_str_path, Esp, Etk.
    destruct (app_last_nonempty (map decode_key (removelast rest)) (decode_key (last rest ""))) as [t [r E]]. rewrite E, <- E.
    apply (at_container_rfc rfc_remove_at (fun c key => pbind (c_remove c key) (fun c' => POk (c', tt)))); [|exact Hc].
    intros m key. cbn [c_remove rfc_remove_at]. destruct (lookup key m); reflexivity.
  Qed.

  Lemma rfc_at_parent_step v t t2 rest (f : json -> string -> option json) :
    rfc_at_parent v (t :: t2 :: rest) f =
    match v with
    | JObj m => match lookup t m with
                | Some c => match rfc_at_parent c (t2 :: rest) f with Some c' => Some (JObj (set_key t c' m)) | None => None end
                | None => None
                end
    | JArr l => match rfc_index t with
                | Some i => match nth_error l i with
                            | Some c => match rfc_at_parent c (t2 :: rest) f with Some c' => Some (JArr (set_at i c' l)) | None => None end
                            | None => None
                            end
                | None => None
                end
    | _ => None
    end.
  Proof. reflexivity. Qed.

  Lemma rfc_at_parent_mono (g g2 : json -> string -> option json) :
    (forall p t d, g p t = Some d -> g2 p t = Some d) ->
    forall toks v d, rfc_at_parent v toks g = Some d -> rfc_at_parent v toks g2 = Some d.
  Proof.
    intros Hg. induction toks as [|t rest IH]; intros v d H; [discriminate|].
    destruct rest as [|t2 rest]; [now apply Hg|]. rewrite rfc_at_parent_step in H |- *.
    destruct v; try discriminate.
    - destruct (rfc_index t); [|discriminate]. destruct (nth_error l n) as [c|]; [|discriminate].
      destruct (rfc_at_parent c (t2 :: rest) g) as [c'|] eqn:E; [|discriminate]. now rewrite (IH _ _ E).
    - destruct (lookup t m) as [c|]; [|discriminate].
      destruct (rfc_at_parent c (t2 :: rest) g) as [c'|] eqn:E; [|discriminate]. now rewrite (IH _ _ E).
  Qed.

  (* replace: whenever the RFC operation succeeds (the member exists), the library agrees;
     when the member is missing the library creates it - a listed finding *)
  Theorem replace_conforms x d : lookup "op" op = Some (JStr "replace") -> lookup "value" op = Some x ->
    rfc_apply_op doc (JObj op) = Some d -> conv (apply_op doc (JObj op)) = Some d.
  Proof.
    intros Hop Hv. destruct Hmp as [rest [Hs [Hne [Hp Hc]]]]. destruct (pointer_tokens path rest Hs Hne Hp) as [Esp Etk].
    unfold apply_op, rfc_apply_op. assert (Ek : op_str op "op" = "replace") by (unfold op_str; now rewrite Hop).
    assert (Ek' : rfc_op_str op "op" = Some "replace") by (unfold rfc_op_str; now rewrite Hop).
    rewrite Ek, Ek', rfc_op_path, Hv. cbn [String.eqb Ascii.eqb Bool.eqb]. rewrite Etk.
    unfold do_replace, with_target. rewrite op_str_path, Esp. unfold op_value. rewrite Hv. cbn [node].
    destruct (app_last_nonempty (map decode_key (removelast rest)) (decode_key (last rest ""))) as [t [r E]]. rewrite E, <- E.
    intros H.
    rewrite (at_container_rfc (fun p t => match p with JObj m => Some (JObj (set_key t x m)) | other => rfc_replace_at other t x end)
               (fun c key => pbind (c_get c key) (fun _ => pbind (c_set c key x) (fun c' => POk (c', tt))))); [| |exact Hc].
    - eapply rfc_at_parent_mono; [|exact H]. intros p t0 d0. destruct p; auto. unfold rfc_replace_at.
      destruct (lookup t0 m); [auto|discriminate].
    - intros m key. reflexivity.
  Qed.
End Ops.

(* the class is not empty *)
Example member_path_example :
  member_path (JObj [("a", JObj [("b~", JObj [("c", JNum "1")])]); ("k", JNull)]) "/a/b~0/c" /\
  member_path (JObj [("a", JObj []); ("k", JNull)]) "/new".
Proof.
  split.
  - exists ["a"; "b~0"; "c"]. repeat split; try reflexivity; try discriminate.
    cbn. eexists _, _. split; [reflexivity|]. split; [reflexivity|]. eexists _, _. split; [reflexivity|]. split; [reflexivity|]. eexists; reflexivity.
  - exists ["new"]. repeat split; try reflexivity; try discriminate. cbn. eexists; reflexivity.
Qed.
