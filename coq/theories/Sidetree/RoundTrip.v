(* C14: converting a document into patches and applying them to an empty document
   reproduces the document - for every document of the class (no id; publicKey / service
   non-empty lists of objects; alsoKnownAs a non-empty list of strings; member names without
   '/' and '~', each once). *)
From Coq Require Import ZArith String List Bool Ascii Sorting.Permutation.
From Sidetree Require Import Json.Json Sidetree.JsonPatch Sidetree.Composer Sidetree.Builders.
Import ListNotations.
Open Scope string_scope.

(* ---- names ---- *)

Fixpoint plain (k : string) : bool :=
  match k with
  | EmptyString => true
  | String c r => andb (negb (Ascii.eqb c "/")) (andb (negb (Ascii.eqb c "~")) (plain r))
  end.

Lemma app_assoc_str a b c : (a ++ b) ++ c = a ++ (b ++ c).
Proof. induction a as [|x a IH]; cbn; congruence. Qed.

Lemma split_on_plain k : forall acc, plain k = true -> split_on "/" acc k = [acc ++ k].
Proof.
  induction k as [|c r IH]; intros acc H; cbn [split_on].
  - f_equal. induction acc as [|x a IHa]; cbn; congruence.
  - cbn [plain] in H. apply andb_prop in H as [Hs H]. apply andb_prop in H as [_ Hr].
    destruct (Ascii.eqb c "/"); [discriminate|]. rewrite IH by exact Hr. now rewrite app_assoc_str.
Qed.

Lemma decode_key_plain_id k : plain k = true -> decode_key k = k.
Proof.
  induction k as [|c r IH]; intros H; [reflexivity|].
  cbn [plain] in H. apply andb_prop in H as [_ H]. apply andb_prop in H as [Ht Hr].
  specialize (IH Hr).
  destruct c as [[] [] [] [] [] [] [] []]; try discriminate Ht; cbn [decode_key]; rewrite ?IH; try reflexivity.
Qed.

Lemma split_pointer_plain k : plain k = true -> split_pointer (String "/" k) = Some ([], k).
Proof.
  intros H. unfold split_pointer, split_path. cbn [split_on]. change (Ascii.eqb "/" "/") with true. cbv iota.
  rewrite split_on_plain by exact H. cbn. now rewrite decode_key_plain_id.
Qed.

(* ---- one add operation on the root object ---- *)

Definition add_op (k : string) (v : json) : json := JObj [("op", JStr "add"); ("path", JStr ("/" ++ k)); ("value", v)].

Lemma apply_add_op m k v : plain k = true -> apply_op (JObj m) (add_op k v) = POk (JObj (set_key k v m)).
Proof.
  intros H. unfold add_op, apply_op.
  change (op_str [("op", JStr "add"); ("path", JStr ("/" ++ k)); ("value", v)] "op") with "add".
  change (String.eqb "add" "add") with true. cbv iota.
  unfold do_add, with_target.
  change (op_str [("op", JStr "add"); ("path", JStr ("/" ++ k)); ("value", v)] "path") with (String "/" k).
  change (op_value [("op", JStr "add"); ("path", JStr ("/" ++ k)); ("value", v)]) with (Some v).
  rewrite split_pointer_plain by exact H. reflexivity.
Qed.

Lemma add_op_not_copy k v : copy_into_self (add_op k v) = false.
Proof. reflexivity. Qed.

Lemma apply_add_ops kvs : forall m, Forall (fun kv => plain (fst kv) = true) kvs ->
  apply_ops_checked (JObj m) (map (fun kv => add_op (fst kv) (snd kv)) kvs) =
  POk (JObj (fold_left (fun acc kv => set_key (fst kv) (snd kv) acc) kvs m)).
Proof.
  induction kvs as [|[k v] r IH]; intros m H; [reflexivity|].
  inversion H as [|? ? Hk Hr]; subst. cbn [map apply_ops_checked fst snd]. rewrite add_op_not_copy, apply_add_op by exact Hk.
  cbn [pbind fold_left fst snd]. now apply IH.
Qed.

Lemma all_objects_add_ops kvs : all_objects (map (fun kv => add_op (fst kv) (snd kv)) kvs) = true.
Proof. induction kvs; cbn; auto. Qed.

(* ---- the document class ---- *)

Definition special (k : string) : bool :=
  orb (String.eqb k "publicKey") (orb (String.eqb k "service") (String.eqb k "alsoKnownAs")).

Definition objects_list (v : json) : Prop := exists es : list obj, es <> [] /\ v = JArr (map JObj es).
Definition strings_list (v : json) : Prop := exists us : list string, us <> [] /\ v = JArr (map JStr us).

Record doc_class (doc : obj) : Prop := {
  dc_nodup : NoDup (keys doc);
  dc_no_id : entry_id doc = "";
  dc_plain : Forall (fun k => plain k = true) (keys doc);
  dc_keys : forall v, lookup "publicKey" doc = Some v -> objects_list v;
  dc_svcs : forall v, lookup "service" doc = Some v -> objects_list v;
  dc_aka : forall v, lookup "alsoKnownAs" doc = Some v -> strings_list v }.

Definition special_patch (k : string) (v : json) : json :=
  if String.eqb k "publicKey" then mk_patch "add-public-keys" "publicKeys" v
  else if String.eqb k "service" then mk_patch "add-services" "services" v
  else mk_patch "add-also-known-as" "uris" v.

Fixpoint sp (doc : obj) (ks : list string) : list json :=
  match ks with
  | [] => []
  | k :: r => (if special k then [special_patch k (node (lookup k doc))] else []) ++ sp doc r
  end.

Fixpoint ot (doc : obj) (ks : list string) : list (string * json) :=
  match ks with
  | [] => []
  | k :: r => (if special k then [] else [(k, node (lookup k doc))]) ++ ot doc r
  end.

Definition add_ops (kvs : list (string * json)) : list json := map (fun kv => add_op (fst kv) (snd kv)) kvs.

Lemma lookup_in_keys k (m : obj) : In k (keys m) -> exists v, lookup k m = Some v.
Proof.
  induction m as [|[k' v'] r IH]; cbn; [tauto|]. intros [E|I].
  - subst. rewrite String.eqb_refl. eauto.
  - destruct (String.eqb k k'); eauto.
Qed.

Lemma lookup_not_in_keys k (m : obj) : ~ In k (keys m) -> lookup k m = None.
Proof.
  induction m as [|[k' v'] r IH]; cbn; auto. intros N. destruct (String.eqb_spec k k') as [->|]; [tauto|]. apply IH. tauto.
Qed.

Lemma all_strings_map us : all_strings (map JStr us) = true.
Proof. induction us; cbn; auto. Qed.

Lemma pfd_go_char doc : doc_class doc -> forall ks, (forall k, In k ks -> In k (keys doc)) ->
  pfd_go doc ks = Some (sp doc ks, add_ops (ot doc ks)).
Proof.
  intros C. induction ks as [|k r IH]; intros Hin; [reflexivity|].
  cbn [pfd_go sp ot]. destruct (lookup_in_keys k doc (Hin k (or_introl eq_refl))) as [v Ev]. rewrite Ev.
  rewrite IH by (intros k' I; apply Hin; now right). unfold special. cbn [node].
  destruct (String.eqb_spec k "publicKey") as [->|N1]; [reflexivity|].
  destruct (String.eqb_spec k "service") as [->|N2]; [reflexivity|].
  destruct (String.eqb_spec k "alsoKnownAs") as [->|N3]; [|reflexivity].
  cbn [orb app]. destruct (dc_aka doc C v Ev) as [us [Hne ->]].
  destruct us as [|u us]; [congruence|]. cbn [map]. change (JStr u :: map JStr us) with (map JStr (u :: us)).
  rewrite all_strings_map. unfold special_patch. reflexivity.
Qed.

(* ---- applying one list patch to a document that lacks the member ---- *)

Lemma parse_objects_map es : parse_objects (Some (JArr (map JObj es))) = es.
Proof. cbn. induction es as [|e r IH]; cbn; congruence. Qed.

Lemma string_array_map us : string_array (Some (JArr (map JStr us))) = us.
Proof. cbn. induction us as [|e r IH]; cbn; congruence. Qed.

Lemma add_entries_nil es : add_entries [] es = es.
Proof.
  unfold add_entries. cbn [map].
  assert (G : forall acc, fold_left (fun acc e => if mem_str (entry_id e) [] then replace_by_id acc e else (acc ++ [e])%list) es acc = (acc ++ es)%list).
  { induction es as [|e r IH]; intros acc; cbn [fold_left]; [now rewrite app_nil_r|]. cbn [mem_str existsb]. rewrite IH, <- app_assoc. reflexivity. }
  apply G.
Qed.

Lemma add_aka_nil us : fold_left (fun acc u => if mem_str u [] then acc else (acc ++ [u])%list) us [] = us.
Proof.
  assert (G : forall acc, fold_left (fun acc u => if mem_str u [] then acc else (acc ++ [u])%list) us acc = (acc ++ us)%list).
  { induction us as [|e r IH]; intros acc; cbn [fold_left]; [now rewrite app_nil_r|]. cbn [mem_str existsb]. rewrite IH, <- app_assoc. reflexivity. }
  apply G.
Qed.

Lemma apply_special doc d0 k v : doc_class doc -> special k = true -> lookup k doc = Some v -> lookup k d0 = None ->
  apply_patch d0 (special_patch k v) = Some (set_key k v d0).
Proof.
  intros C S Ev E0. unfold special_patch, special in *.
  destruct (String.eqb_spec k "publicKey") as [->|N1].
  - destruct (dc_keys doc C v Ev) as [es [Hne ->]].
    unfold apply_patch, mk_patch. cbn [get_action get_value lookup String.eqb Ascii.eqb Bool.eqb action_of_string assoc_str action_names value_key].
    unfold apply_add_entries. rewrite E0, parse_objects_map. cbn [parse_objects]. rewrite add_entries_nil.
    destruct es; [congruence|reflexivity].
  - destruct (String.eqb_spec k "service") as [->|N2].
    + destruct (dc_svcs doc C v Ev) as [es [Hne ->]].
      unfold apply_patch, mk_patch. cbn [get_action get_value lookup String.eqb Ascii.eqb Bool.eqb action_of_string assoc_str action_names value_key].
      unfold apply_add_entries. rewrite E0, parse_objects_map. cbn [parse_objects]. rewrite add_entries_nil.
      destruct es; [congruence|reflexivity].
    + destruct (String.eqb_spec k "alsoKnownAs") as [->|N3]; [|discriminate].
      destruct (dc_aka doc C v Ev) as [us [Hne ->]].
      unfold apply_patch, mk_patch. cbn [get_action get_value lookup String.eqb Ascii.eqb Bool.eqb action_of_string assoc_str action_names value_key].
      unfold apply_add_aka. rewrite E0, string_array_map. cbn [string_array]. rewrite add_aka_nil.
      destruct us; [congruence|reflexivity].
Qed.

(* ---- all list patches ---- *)

Lemma mem_str_In s l : mem_str s l = true <-> In s l.
Proof.
  unfold mem_str. rewrite existsb_exists. split.
  - intros [x [I E]]. apply String.eqb_eq in E. now subst.
  - intros I. exists s. split; auto. apply String.eqb_refl.
Qed.

Lemma apply_sp doc : doc_class doc -> forall ks d0, NoDup ks -> (forall k, In k ks -> In k (keys doc)) ->
  (forall k, In k ks -> special k = true -> lookup k d0 = None) ->
  exists d1, apply_patches d0 (sp doc ks) = Some d1 /\
    forall k, lookup k d1 = if andb (special k) (mem_str k ks) then lookup k doc else lookup k d0.
Proof.
  intros C. induction ks as [|k r IH]; intros d0 ND Hin H0.
  - exists d0. split; [reflexivity|]. intros k. now rewrite andb_false_r.
  - inversion ND as [|? ? Hnk NDr]; subst. cbn [sp].
    destruct (special k) eqn:Sk.
    + destruct (lookup_in_keys k doc (Hin k (or_introl eq_refl))) as [v Ev].
      cbn [app apply_patches]. rewrite Ev. cbn [node].
      rewrite (apply_special doc d0 k v C Sk Ev (H0 k (or_introl eq_refl) Sk)).
      destruct (IH (set_key k v d0) NDr) as [d1 [A L]].
      * intros k' I. apply Hin. now right.
      * intros k' I S'. rewrite lookup_set_other; [apply H0; auto; now right|]. intros ->. contradiction.
      * exists d1. split; [exact A|]. intros k'. rewrite L. cbn [mem_str existsb].
        destruct (String.eqb_spec k' k) as [->|N].
        -- rewrite Sk. cbn [andb orb]. destruct (mem_str k r) eqn:M; [apply mem_str_In in M; contradiction|].
           cbn [andb]. now rewrite lookup_set_same.
        -- cbn [orb]. fold (mem_str k' r). destruct (andb (special k') (mem_str k' r)); auto.
           apply lookup_set_other. congruence.
    + cbn [app]. destruct (IH d0 NDr) as [d1 [A L]].
      * intros k' I. apply Hin. now right.
      * intros k' I S'. apply H0; auto. now right.
      * exists d1. split; [exact A|]. intros k'. rewrite L. cbn [mem_str existsb].
        destruct (String.eqb_spec k' k) as [->|N]; [|reflexivity]. rewrite Sk. reflexivity.
Qed.

(* ---- the remaining members through one ietf-json-patch ---- *)

Lemma lookup_fold_set kvs : forall (m : obj) k, NoDup (map fst kvs) ->
  lookup k (fold_left (fun acc kv => set_key (fst kv) (snd kv) acc) kvs m) =
  match assoc_str k kvs with Some v => Some v | None => lookup k m end.
Proof.
  induction kvs as [|[k' v'] r IH]; intros m k ND; [reflexivity|].
  inversion ND as [|? ? Hn NDr]; subst. cbn [fold_left fst snd assoc_str]. rewrite IH by exact NDr.
  destruct (String.eqb_spec k k') as [->|N].
  - assert (assoc_str k' r = None) as ->; [|apply lookup_set_same].
    clear - Hn. induction r as [|[a b] r IH]; cbn in *; auto. destruct (String.eqb_spec k' a); [subst; tauto|]. apply IH. tauto.
  - destruct (assoc_str k r); auto. apply lookup_set_other. congruence.
Qed.

Lemma ot_keys doc ks : map fst (ot doc ks) = filter (fun k => negb (special k)) ks.
Proof. induction ks as [|k r IH]; cbn; auto. destruct (special k); cbn; congruence. Qed.

Lemma assoc_ot doc ks k : assoc_str k (ot doc ks) = if andb (negb (special k)) (mem_str k ks) then Some (node (lookup k doc)) else None.
Proof.
  induction ks as [|k' r IH]; cbn [ot assoc_str mem_str existsb]; [now rewrite andb_false_r|].
  fold (mem_str k r). destruct (special k') eqn:S'.
  - cbn [app]. rewrite IH. destruct (String.eqb_spec k k') as [->|N]; [rewrite S'; reflexivity|reflexivity].
  - cbn [app assoc_str]. destruct (String.eqb_spec k k') as [->|N]; [now rewrite S'|]. cbn [orb]. exact IH.
Qed.

Lemma apply_ietf doc d1 ks : Forall (fun k => plain k = true) ks -> ot doc ks <> [] ->
  apply_patch d1 (mk_patch "ietf-json-patch" "patches" (JArr (add_ops (ot doc ks)))) =
  Some (fold_left (fun acc kv => set_key (fst kv) (snd kv) acc) (ot doc ks) d1).
Proof.
  intros Hp Hne. unfold apply_patch, mk_patch.
  cbn [get_action get_value lookup String.eqb Ascii.eqb Bool.eqb action_of_string assoc_str action_names value_key].
  unfold apply_json, jsonpatch_apply, add_ops. rewrite all_objects_add_ops. cbn [negb].
  rewrite apply_add_ops; [reflexivity|].
  apply Forall_forall. intros [k v] I. cbn [fst]. rewrite Forall_forall in Hp. apply Hp.
  assert (I' : In k (map fst (ot doc ks))) by (apply in_map_iff; exists (k, v); auto).
  rewrite ot_keys in I'. apply filter_In in I'. tauto.
Qed.

(* ---- sort.Strings ---- *)

Lemma insert_str_perm s l : Permutation (s :: l) (insert_str s l).
Proof.
  induction l as [|x r IH]; cbn; auto. destruct (String.leb s x); auto.
  eapply perm_trans; [apply perm_swap|]. now constructor.
Qed.

Lemma sort_strings_perm l : Permutation l (sort_strings l).
Proof.
  unfold sort_strings. induction l as [|x r IH]; cbn; auto.
  eapply perm_trans; [|apply insert_str_perm]. now constructor.
Qed.

(* ---- the round trip ---- *)

Theorem doc_patches_roundtrip doc : doc_class doc ->
  exists ps d, patches_from_document doc = Some ps /\ apply_patches [] ps = Some d /\
               (forall k, lookup k d = lookup k doc).
Proof.
  intros C. set (ks := sort_strings (keys doc)).
  assert (P : Permutation (keys doc) ks) by apply sort_strings_perm.
  assert (ND : NoDup ks) by (eapply Permutation_NoDup; [exact P|apply (dc_nodup doc C)]).
  assert (Hin : forall k, In k ks -> In k (keys doc)) by (intros k I; eapply Permutation_in; [apply Permutation_sym; exact P|exact I]).
  assert (Hin' : forall k, In k (keys doc) -> In k ks) by (intros k I; eapply Permutation_in; [exact P|exact I]).
  assert (Hp : Forall (fun k => plain k = true) ks) by (eapply Permutation_Forall; [exact P|apply (dc_plain doc C)]).
  destruct (apply_sp doc C ks [] ND Hin (fun _ _ _ => eq_refl)) as [d1 [A1 L1]].
  assert (Hfinal : forall d, (forall k, lookup k d = match assoc_str k (ot doc ks) with Some v => Some v | None => lookup k d1 end) ->
                             forall k, lookup k d = lookup k doc).
  { intros d Hd k. rewrite Hd, assoc_ot, L1. cbn [lookup].
    destruct (in_dec string_dec k ks) as [I|NI].
    - assert (M : mem_str k ks = true) by now apply mem_str_In. rewrite M, !andb_true_r.
      destruct (lookup_in_keys k doc (Hin k I)) as [v Ev]. destruct (special k); cbn [negb]; rewrite Ev; reflexivity.
    - assert (M : mem_str k ks = false) by (destruct (mem_str k ks) eqn:M; auto; apply mem_str_In in M; contradiction).
      rewrite M, !andb_false_r. symmetry. apply lookup_not_in_keys. intros I. apply NI. now apply Hin'. }
  unfold patches_from_document. rewrite (dc_no_id doc C). cbn [String.eqb negb]. fold ks.
  rewrite (pfd_go_char doc C ks Hin).
  destruct (ot doc ks) as [|kv r] eqn:Eo.
  - cbn [add_ops map]. exists (sp doc ks), d1. repeat split; auto.
  - assert (Hne : ot doc ks <> []) by (rewrite Eo; discriminate). rewrite <- Eo in *.
    assert (Ea : exists o os, add_ops (ot doc ks) = o :: os) by (rewrite Eo; cbn; eauto). destruct Ea as [o [os Ea]].
    rewrite Ea. rewrite <- Ea.
    eexists. exists (fold_left (fun acc kv => set_key (fst kv) (snd kv) acc) (ot doc ks) d1).
    split; [reflexivity|]. split.
    + rewrite apply_patches_app, A1. cbn [apply_patches]. now rewrite (apply_ietf doc d1 ks Hp Hne).
    + apply Hfinal. intros k. apply lookup_fold_set. rewrite ot_keys. apply NoDup_filter. exact ND.
Qed.

(* the class is inhabited by documents with all kinds of members *)
Example doc_class_example :
  doc_class [("publicKey", JArr [JObj [("id", JStr "k1"); ("type", JStr "JsonWebKey2020")]]);
             ("service", JArr [JObj [("id", JStr "s1")]]);
             ("alsoKnownAs", JArr [JStr "https://a.example"]);
             ("other", JObj [("n", JNum "1")]); ("zeta", JNull)].
Proof.
  constructor.
  - repeat constructor; cbn; intuition discriminate.
  - reflexivity.
  - repeat constructor.
  - intros v H. injection H as <-. exists [[("id", JStr "k1"); ("type", JStr "JsonWebKey2020")]]. split; [discriminate|reflexivity].
  - intros v H. injection H as <-. exists [[("id", JStr "s1")]]. split; [discriminate|reflexivity].
  - intros v H. injection H as <-. exists ["https://a.example"]. split; [discriminate|reflexivity].
Qed.
