(* Shared steps of the signed builders' acceptance proofs: the protected header and the delta. *)
From Coq Require Import ZArith NArith String Ascii List Bool Sorting.Permutation Lia.
From Sidetree Require Import Base.Sha2 Base.Base64url Json.Json Json.Jcs Json.Parse Json.JcsProps Json.JcsRoundTrip Json.TransformIdem
     Sidetree.Protocol Sidetree.Window Sidetree.JsonPatch Sidetree.Composer Sidetree.Validator Sidetree.Hashing Sidetree.Parser
     Sidetree.Rules Sidetree.JequivDecode Sidetree.ClientCreate Sidetree.CompactJws.
Import ListNotations.
Open Scope string_scope.

Section Signed.
  Variable cfg : protocol.
  Variable uri_ok : string -> bool.
  Variable url_norm : string -> option string.

  (* the protected header {"alg": alg} as the parser reads it back *)
  Lemma header_roundtrip alg hb : jcs (JObj [("alg", JStr alg)]) = Some hb -> alg <> "" -> In alg (P_SignatureAlgorithms cfg) ->
    exists h', parse_json hb = Some (JObj h') /\ has "alg" h' = true /\ headers_rule cfg h' /\ hb <> "" /\ dupfree (JObj h') = true.
  Proof.
    intros Ehb Hne Hin.
    assert (Whdr : wfnum (JObj [("alg", JStr alg)])) by (repeat constructor).
    destruct (jcs_parse_roundtrip _ _ Ehb Whdr) as [vh [Hph [Evh _]]].
    assert (NDh : NoDup (keys [("alg", JStr alg)])) by (repeat constructor; cbn; tauto).
    destruct (jequiv_obj_inv _ _ Evh) as [_ [h' [-> _]]].
    destruct (lookup_jequiv "alg" _ _ NDh Evh) as [NDh' [Pk Hla]]. cbn [lookup String.eqb Ascii.eqb Bool.eqb] in Hla. unfold opt_jequiv in Hla.
    destruct (lookup "alg" h') as [va|] eqn:Ela; [|contradiction]. apply jequiv_str_inv in Hla. subst va.
    exists h'. split; [exact Hph|]. split; [unfold has; now rewrite Ela|]. split.
    - exists alg. repeat split; auto. intros k Ik. left.
      assert (Ik' : In k (keys [("alg", JStr alg)])) by (eapply Permutation_in; [apply Permutation_sym; exact Pk|exact Ik]).
      destruct Ik' as [<-|[]]. reflexivity.
    - split; [intros ->; cbn in Hph; discriminate|]. exact (single_alg_dupfree _ _ Pk Ela).
  Qed.

  (* the delta rule for the re-read delta of a built request *)
  Lemma delta_rule_built uc ps ps' code dh :
    ps <> [] -> Forall2 jequiv ps ps' ->
    calc_mh (img_delta {| d_update_c := uc; d_patches := ps |}) code = Some dh ->
    (Z.of_nat (String.length uc) <= P_MaxOperationHashLength cfg)%Z -> mh_code uc = Some code -> In code (algs cfg) ->
    (forall c, jcs (img_delta {| d_update_c := uc; d_patches := ps |}) = Some c -> (Z.of_nat (String.length c) <= P_MaxDeltaSize cfg)%Z) ->
    (forall p p', In p ps -> jequiv p p' -> patch_enabled cfg p' = true /\ validate_patch uri_ok url_norm p' = true) ->
    delta_rule cfg uri_ok url_norm (Some {| d_update_c := uc; d_patches := ps' |}).
  Proof.
    intros Hne Fps Edh Hluc Hcuc Hcode Hdsize Hvalid.
    set (d0 := {| d_update_c := uc; d_patches := ps |}) in *. set (d' := {| d_update_c := uc; d_patches := ps' |}).
    assert (Edl : jequiv (img_delta d0) (img_delta d')) by (apply img_delta_jequiv; exact Fps).
    exists d'. split; [reflexivity|]. split.
    - cbn [d_patches d']. destruct ps; [congruence|]. inversion Fps; discriminate.
    - split; [|split].
      + cbn [d_patches d']. apply Forall_forall. intros q Iq.
        assert (exists q0, In q0 ps /\ jequiv q0 q) as [q0 [I0 E0]].
        { clear - Fps Iq. induction Fps as [|x y l l' Exy F IH]; [destruct Iq|]. destruct Iq as [<-|Iq]; [exists x; split; [now left|exact Exy]|].
          destruct (IH Iq) as [q0 [I0 E0]]. exists q0. split; [now right|exact E0]. }
        exact (Hvalid q0 q I0 E0).
      + split; [exact Hluc|exists code; auto].
      + destruct (jcs (img_delta d0)) as [c|] eqn:Ec.
        * exists c. split; [rewrite <- (jcs_canonical _ _ Edl); exact Ec|apply Hdsize; reflexivity].
        * unfold calc_mh, calc_model_mh in Edh. fold d0 in Edh. rewrite Ec in Edh. discriminate.
  Qed.

  (* absent integer members decode to zero *)
  Lemma absent_int name m pm : NoDup (fnames m) -> jequiv (JObj m) (JObj pm) -> field name m = None -> dec_int64 (field name pm) = Some 0%Z.
  Proof.
    intros ND E H. pose proof (field_opt_jequiv name _ _ ND E) as Ho. rewrite H in Ho. unfold opt_jequiv in Ho.
    destruct (field name pm); [contradiction|reflexivity].
  Qed.
End Signed.
