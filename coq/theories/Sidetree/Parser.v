(* Operation parser (pkg/versions/1_0/operationparser/*.go, pkg/versions/1_0/model/*.go,
   pkg/jwsutil/jws.go parse side, pkg/jws/jwk.go) over bytes: strict JSON parse, encoding/json
   struct decoding rules, protocol rules in the code's order.  Error kinds are collapsed:
   None = (nil, error).

   Modelled Go decoding rules: member names match struct fields exactly or ASCII
   case-insensitively; duplicates: the last one wins (for scalar fields exactly as Go; for
   nested structs / slices Go merges - such inputs are outside the model's domain and are not
   generated); unknown members ignored; null leaves the field at its zero value; a JSON value
   of the wrong type is an error; int64 only from integer literals in range. *)
From Coq Require Import ZArith NArith Arith String Ascii List Bool.
From Sidetree Require Import Base.GoInt Base.Sha2 Base.Base64url Base.Multihash Json.Json Json.Es6 Json.Jcs Json.Parse
     Sidetree.Protocol Sidetree.Window Sidetree.JsonPatch Sidetree.Composer Sidetree.Validator Sidetree.Hashing.
Import ListNotations.
Open Scope string_scope.

(* ---- encoding/json helpers ---- *)

Definition lower (c : ascii) : ascii :=
  let n := N_of_ascii c in if andb (65 <=? n)%N (n <=? 90)%N then ascii_of_N (n + 32) else c.
Fixpoint fold_name (s : string) : string :=
  match s with EmptyString => EmptyString | String c r => String (lower c) (fold_name r) end.

(* the last member whose name matches the field; None = absent *)
Definition field (name : string) (m : obj) : option json :=
  fold_left (fun acc kv => if String.eqb (fold_name (fst kv)) (fold_name name) then Some (snd kv) else acc) m None.

(* string field: absent / null -> zero value; wrong type -> error *)
Definition dec_string (o : option json) : option string :=
  match o with
  | None | Some JNull => Some ""
  | Some (JStr s) => Some s
  | Some _ => None
  end.

Definition int_literal (t : string) : option Z :=
  let body (neg : bool) (r : string) :=
    match r with
    | EmptyString => None
    | _ => match digits_val 0 r with
           | Some v => Some (if neg then (- v)%Z else v)
           | None => None
           end
    end in
  match t with
  | String "-" r => body true r
  | _ => body false t
  end.

Definition dec_int64 (o : option json) : option Z :=
  match o with
  | None | Some JNull => Some 0%Z
  | Some (JNum t) =>
      match int_literal t with
      | Some z => if andb (- two63 <=? z)%Z (z <? two63)%Z then Some z else None
      | None => None
      end
  | Some _ => None
  end.

(* interface{} field: any JSON value (JNull = nil); numbers become float64: normalised *)
Definition dec_any (o : option json) : option json :=
  match o with
  | None => Some JNull
  | Some v => normalise_numbers v
  end.

(* ---- model structs ---- *)

Record jwk := { k_kty : string; k_crv : string; k_x : string; k_y : string; k_n : string; k_e : string; k_nonce : string }.

Definition dec_jwk (o : option json) : option (option jwk) :=
  match o with
  | None | Some JNull => Some None
  | Some (JObj m) =>
      match dec_string (field "kty" m), dec_string (field "crv" m), dec_string (field "x" m), dec_string (field "y" m),
            dec_string (field "n" m), dec_string (field "e" m), dec_string (field "nonce" m) with
      | Some a, Some b, Some c, Some d, Some e, Some f, Some g =>
          Some (Some {| k_kty := a; k_crv := b; k_x := c; k_y := d; k_n := e; k_e := f; k_nonce := g |})
      | _, _, _, _, _, _, _ => None
      end
  | Some _ => None
  end.

Definition opt_member (name v : string) : list (string * json) :=
  if String.eqb v "" then [] else [(name, JStr v)].

(* json.Marshal image of jws.JWK *)
Definition img_jwk (k : jwk) : json :=
  JObj ([("kty", JStr (k_kty k)); ("crv", JStr (k_crv k)); ("x", JStr (k_x k)); ("y", JStr (k_y k))]
        ++ opt_member "n" (k_n k) ++ opt_member "e" (k_e k) ++ opt_member "nonce" (k_nonce k))%list.

Record suffix_data := { sd_delta_hash : string; sd_recovery_c : string; sd_origin : json; sd_type : string }.

Definition dec_suffix_data (o : option json) : option (option suffix_data) :=
  match o with
  | None | Some JNull => Some None
  | Some (JObj m) =>
      match dec_string (field "deltaHash" m), dec_string (field "recoveryCommitment" m),
            dec_any (field "anchorOrigin" m), dec_string (field "type" m) with
      | Some a, Some b, Some c, Some d =>
          Some (Some {| sd_delta_hash := a; sd_recovery_c := b; sd_origin := c; sd_type := d |})
      | _, _, _, _ => None
      end
  | Some _ => None
  end.

Definition img_suffix_data (s : suffix_data) : json :=
  JObj (opt_member "deltaHash" (sd_delta_hash s) ++ opt_member "recoveryCommitment" (sd_recovery_c s)
        ++ (match sd_origin s with JNull => [] | v => [("anchorOrigin", v)] end)
        ++ opt_member "type" (sd_type s))%list.

(* patches: nil slice vs list; each element a map (JObj) or nil map (JNull) *)
Record delta := { d_update_c : string; d_patches : list json }.

Definition dec_patches (o : option json) : option (list json) :=
  match o with
  | None | Some JNull => Some []
  | Some (JArr l) =>
      (fix go (l : list json) : option (list json) :=
         match l with
         | [] => Some []
         | JObj m :: r => match normalise_numbers (JObj m), go r with
                          | Some v, Some r' => Some (v :: r')
                          | _, _ => None
                          end
         | JNull :: r => match go r with Some r' => Some (JNull :: r') | None => None end
         | _ :: _ => None
         end) l
  | Some _ => None
  end.

Definition dec_delta (o : option json) : option (option delta) :=
  match o with
  | None | Some JNull => Some None
  | Some (JObj m) =>
      match dec_string (field "updateCommitment" m), dec_patches (field "patches" m) with
      | Some a, Some b => Some (Some {| d_update_c := a; d_patches := b |})
      | _, _ => None
      end
  | Some _ => None
  end.

Definition img_delta (d : delta) : json :=
  JObj (opt_member "updateCommitment" (d_update_c d)
        ++ (match d_patches d with [] => [] | l => [("patches", JArr l)] end))%list.

(* nil *DeltaModel marshals as null *)
Definition img_delta_opt (d : option delta) : json := match d with Some x => img_delta x | None => JNull end.

(* ---- compact JWS (jwsutil.ParseJWS) ---- *)

Record jws := { j_headers : obj; j_payload : string; j_signature : string; j_parts : string * string * string }.

(* The protected header is decoded with go-jose's JSON package, which refuses an object that
   names a member twice (exact spelling), at any depth; encoding/json, used everywhere else,
   keeps the last occurrence. *)
Fixpoint names_distinct (l : list string) : bool :=
  match l with
  | [] => true
  | x :: r => andb (negb (existsb (String.eqb x) r)) (names_distinct r)
  end.

Fixpoint dupfree (j : json) : bool :=
  match j with
  | JArr l => (fix go (l : list json) : bool := match l with [] => true | x :: r => andb (dupfree x) (go r) end) l
  | JObj m => andb (names_distinct (map fst m))
                   ((fix go (m : list (string * json)) : bool :=
                       match m with [] => true | kv :: r => andb (dupfree (snd kv)) (go r) end) m)
  | _ => true
  end.

Definition parse_jws (s : string) : option jws :=
  if is_prefix "{" s then None else
  match split_on "."%char "" s with
  | [p0; p1; p2] =>
      match b64_decode p0 with
      | None => None
      | Some hb =>
          match parse_json hb with
          | Some (JObj h) =>
              if negb (dupfree (JObj h)) then None else
              (* checkJWSHeaders: alg must be defined *)
              if negb (has "alg" h) then None else
              match b64_decode p1, b64_decode p2 with
              | Some pl, Some sg =>
                  if orb (String.eqb pl "") (String.eqb sg "") then None
                  else Some {| j_headers := h; j_payload := pl; j_signature := sg; j_parts := (p0, p1, p2) |}
              | _, _ => None
              end
          | _ => None
          end
      end
  | _ => None
  end.

Section Parser.
  Variable cfg : protocol.
  Variable uri_ok : string -> bool.
  Variable url_norm : string -> option string.
  Variable origin_ok : json -> bool.          (* anchorOriginValidator *)
  Variable time_ok : Z -> Z -> bool.          (* anchorTimeValidator *)

  Definition algs : list N := map Z.to_N (P_MultihashAlgorithms cfg).

  (* validateMultihash *)
  Definition validate_multihash (mh : string) : bool :=
    andb (Z.of_nat (String.length mh) <=? P_MaxOperationHashLength cfg)%Z (computed_using mh algs).

  (* validateProtectedHeaders *)
  Definition validate_headers (h : obj) : bool :=
    match lookup "alg" h with
    | Some (JStr alg) =>
        andb (negb (String.eqb alg ""))
             (andb (forallb (fun k => orb (String.eqb k "alg") (String.eqb k "kid")) (keys h))
                   (mem_str alg (P_SignatureAlgorithms cfg)))
    | _ => false
    end.

  (* parseSignedData *)
  Definition parse_signed_data (compact : string) : option jws :=
    if String.eqb compact "" then None else
    match parse_jws compact with
    | Some j => if validate_headers (j_headers j) then Some j else None
    | None => None
    end.

  (* JWK.Validate *)
  Definition jwk_valid (k : jwk) : bool :=
    if String.eqb (k_kty k) "" then false
    else if String.eqb (k_kty k) "RSA" then andb (negb (String.eqb (k_n k) "")) (negb (String.eqb (k_e k) ""))
    else andb (negb (String.eqb (k_crv k) "")) (negb (String.eqb (k_x k) "")).

  (* validateNonce *)
  Definition validate_nonce (nonce : string) : bool :=
    if String.eqb nonce "" then true else
    match b64_decode nonce with
    | Some b => (Z.of_nat (String.length b) =? P_NonceSize cfg)%Z
    | None => false
    end.

  (* validateSigningKey *)
  Definition validate_signing_key (k : option jwk) : bool :=
    match k with
    | None => false
    | Some k => andb (jwk_valid k) (andb (mem_str (k_crv k) (P_KeyAlgorithms cfg)) (validate_nonce (k_nonce k)))
    end.

  (* validateCommitment: the key's own commitment, under the next commitment's algorithm, must differ *)
  Definition validate_commitment (k : jwk) (next : string) : bool :=
    match mh_code next with
    | None => false
    | Some code => match commit (img_jwk k) code with
                   | Some cur => negb (String.eqb cur next)
                   | None => false
                   end
    end.

  (* isPatchEnabled + patchvalidator.Validate over the patch list, then commitment and size *)
  Definition patch_enabled (pj : json) : bool :=
    match pj with
    | JObj p => match get_action p with Some a => mem_str (action_name a) (P_Patches cfg) | None => false end
    | _ => false
    end.

  Definition delta_size_ok (d : delta) : bool :=
    match jcs (img_delta d) with
    | Some c => (Z.of_nat (String.length c) <=? P_MaxDeltaSize cfg)%Z
    | None => false
    end.

  (* ValidateDelta *)
  Definition validate_delta (d : option delta) : bool :=
    match d with
    | None => false
    | Some d =>
        match d_patches d with
        | [] => false
        | ps => andb (forallb (fun p => andb (patch_enabled p) (validate_patch uri_ok url_norm p)) ps)
                     (andb (validate_multihash (d_update_c d)) (delta_size_ok d))
        end
    end.

  Definition until_of (from until : Z) : Z := anchor_until_p cfg from until.

  (* signed data models *)
  Record signed_update := { su_key : option jwk; su_delta_hash : string; su_from : Z; su_until : Z }.
  Record signed_recover := { sr_delta_hash : string; sr_key : option jwk; sr_recovery_c : string; sr_origin : json;
                             sr_from : Z; sr_until : Z }.
  Record signed_deactivate := { sx_suffix : string; sx_key : option jwk; sx_from : Z; sx_until : Z }.

  Definition payload_obj (j : jws) : option obj :=
    match parse_json (j_payload j) with
    | Some (JObj m) => Some m
    | Some JNull => Some []
    | _ => None
    end.

  (* ParseSignedDataForUpdate *)
  Definition parse_signed_update (compact : string) : option signed_update :=
    match parse_signed_data compact with
    | None => None
    | Some j =>
        match payload_obj j with
        | None => None
        | Some m =>
            match dec_jwk (field "updateKey" m), dec_string (field "deltaHash" m),
                  dec_int64 (field "anchorFrom" m), dec_int64 (field "anchorUntil" m) with
            | Some k, Some dh, Some f, Some u =>
                if andb (validate_signing_key k) (validate_multihash dh)
                then Some {| su_key := k; su_delta_hash := dh; su_from := f; su_until := u |} else None
            | _, _, _, _ => None
            end
        end
    end.

  (* ParseSignedDataForRecover *)
  Definition parse_signed_recover (compact : string) : option signed_recover :=
    match parse_signed_data compact with
    | None => None
    | Some j =>
        match payload_obj j with
        | None => None
        | Some m =>
            match dec_string (field "deltaHash" m), dec_jwk (field "recoveryKey" m), dec_string (field "recoveryCommitment" m),
                  dec_any (field "anchorOrigin" m), dec_int64 (field "anchorFrom" m), dec_int64 (field "anchorUntil" m) with
            | Some dh, Some k, Some rc, Some o, Some f, Some u =>
                if andb (validate_signing_key k) (andb (validate_multihash rc) (andb (validate_multihash dh)
                        (match k with Some k' => validate_commitment k' rc | None => false end)))
                then Some {| sr_delta_hash := dh; sr_key := k; sr_recovery_c := rc; sr_origin := o; sr_from := f; sr_until := u |}
                else None
            | _, _, _, _, _, _ => None
            end
        end
    end.

  (* ParseSignedDataForDeactivate *)
  Definition parse_signed_deactivate (compact : string) : option signed_deactivate :=
    match parse_signed_data compact with
    | None => None
    | Some j =>
        match payload_obj j with
        | None => None
        | Some m =>
            match dec_string (field "didSuffix" m), dec_string (field "revealValue" m), dec_jwk (field "recoveryKey" m),
                  dec_int64 (field "anchorFrom" m), dec_int64 (field "anchorUntil" m) with
            | Some sfx, Some _, Some k, Some f, Some u =>
                if validate_signing_key k then Some {| sx_suffix := sfx; sx_key := k; sx_from := f; sx_until := u |} else None
            | _, _, _, _, _ => None
            end
        end
    end.

  (* what a successful parse reports *)
  Record parsed := {
    p_type : string;
    p_suffix : string;
    p_origin : json;
    p_reveal : string;
    p_signed : string;
    p_delta : option delta;
    p_suffix_data : option suffix_data;
    p_time_args : option (Z * Z);      (* arguments handed to the time validator (non-batch) *)
    p_origin_arg : option json         (* argument handed to the anchor origin validator (non-batch) *)
  }.

  Definition key_matches_reveal (k : option jwk) (reveal : string) : bool :=
    match k with Some k' => valid_mh (img_jwk k') reveal | None => false end.

  Definition top_object (bytes : string) : option obj :=
    match parse_json bytes with
    | Some (JObj m) => Some m
    | _ => None
    end.

  (* ParseCreateOperation *)
  Definition parse_create (m : obj) (batch : bool) : option parsed :=
    match dec_string (field "type" m), dec_suffix_data (field "suffixData" m), dec_delta (field "delta" m) with
    | Some _, Some osd, Some od =>
        match osd with
        | None => None
        | Some sd =>
            if negb (andb (validate_multihash (sd_recovery_c sd)) (validate_multihash (sd_delta_hash sd))) then None else
            let nonbatch_ok :=
              if batch then true else
              andb (origin_ok (sd_origin sd))
                   (andb (validate_delta od)
                         (andb (valid_mh (img_delta_opt od) (sd_delta_hash sd))
                               (negb (String.eqb (match od with Some d => d_update_c d | None => "" end) (sd_recovery_c sd))))) in
            if negb nonbatch_ok then None else
            match algs with
            | [] => None
            | a :: _ =>
                match calc_mh (img_suffix_data sd) a with
                | Some sfx => Some {| p_type := "create"; p_suffix := sfx; p_origin := sd_origin sd; p_reveal := "";
                                      p_signed := ""; p_delta := od; p_suffix_data := Some sd; p_time_args := None;
                                      p_origin_arg := if batch then None else Some (sd_origin sd) |}
                | None => None
                end
            end
        end
    | _, _, _ => None
    end.

  Definition common_fields (m : obj) : option (string * string * string) :=
    match dec_string (field "type" m), dec_string (field "didSuffix" m), dec_string (field "revealValue" m),
          dec_string (field "signedData" m) with
    | Some _, Some sfx, Some rv, Some sd =>
        if orb (String.eqb sfx "") (String.eqb sd "") then None
        else if negb (validate_multihash rv) then None
        else Some (sfx, rv, sd)
    | _, _, _, _ => None
    end.

  (* ParseUpdateOperation *)
  Definition parse_update (m : obj) (batch : bool) : option parsed :=
    match common_fields m, dec_delta (field "delta" m) with
    | Some (sfx, rv, sd), Some od =>
        match parse_signed_update sd with
        | None => None
        | Some su =>
            let until := until_of (su_from su) (su_until su) in
            let nonbatch_ok :=
              if batch then true else
              andb (time_ok (su_from su) until)
                   (andb (validate_delta od)
                         (match su_key su, od with
                          | Some k, Some d => validate_commitment k (d_update_c d)
                          | _, _ => false
                          end)) in
            if negb nonbatch_ok then None else
            if negb (key_matches_reveal (su_key su) rv) then None else
            Some {| p_type := "update"; p_suffix := sfx; p_origin := JNull; p_reveal := rv; p_signed := sd; p_delta := od;
                    p_suffix_data := None; p_time_args := if batch then None else Some (su_from su, until);
                    p_origin_arg := None |}
        end
    | _, _ => None
    end.

  (* ParseRecoverOperation *)
  Definition parse_recover (m : obj) (batch : bool) : option parsed :=
    match common_fields m, dec_delta (field "delta" m) with
    | Some (sfx, rv, sd), Some od =>
        match parse_signed_recover sd with
        | None => None
        | Some sr =>
            let until := until_of (sr_from sr) (sr_until sr) in
            let nonbatch_ok :=
              if batch then true else
              andb (origin_ok (sr_origin sr))
                   (andb (time_ok (sr_from sr) until)
                         (andb (validate_delta od)
                               (negb (String.eqb (match od with Some d => d_update_c d | None => "" end) (sr_recovery_c sr))))) in
            if negb nonbatch_ok then None else
            if negb (key_matches_reveal (sr_key sr) rv) then None else
            Some {| p_type := "recover"; p_suffix := sfx; p_origin := sr_origin sr; p_reveal := rv; p_signed := sd; p_delta := od;
                    p_suffix_data := None; p_time_args := if batch then None else Some (sr_from sr, until);
                    p_origin_arg := if batch then None else Some (sr_origin sr) |}
        end
    | _, _ => None
    end.

  (* ParseDeactivateOperation *)
  Definition parse_deactivate (m : obj) (batch : bool) : option parsed :=
    match common_fields m with
    | Some (sfx, rv, sd) =>
        match parse_signed_deactivate sd with
        | None => None
        | Some sx =>
            if negb (String.eqb (sx_suffix sx) sfx) then None else
            if negb (key_matches_reveal (sx_key sx) rv) then None else
            let until := until_of (sx_from sx) (sx_until sx) in
            if andb (negb batch) (negb (time_ok (sx_from sx) until)) then None else
            Some {| p_type := "deactivate"; p_suffix := sfx; p_origin := JNull; p_reveal := rv; p_signed := sd; p_delta := None;
                    p_suffix_data := None; p_time_args := if batch then None else Some (sx_from sx, until);
                    p_origin_arg := None |}
        end
    | None => None
    end.

  (* ParseOperation *)
  Definition parse_operation (bytes : string) (batch : bool) : option parsed :=
    if (P_MaxOperationSize cfg <? Z.of_nat (String.length bytes))%Z then None else
    match top_object bytes with
    | None => None
    | Some m =>
        match dec_string (field "type" m) with
        | Some ty =>
            if String.eqb ty "create" then parse_create m batch
            else if String.eqb ty "update" then parse_update m batch
            else if String.eqb ty "deactivate" then parse_deactivate m batch
            else if String.eqb ty "recover" then parse_recover m batch
            else None
        | None => None
        end
    end.

  (* Parser.Parse: what is reported *)
  Definition parse (ns : string) (bytes : string) : option (string * string * string * json) :=
    match parse_operation bytes false with
    | Some p => Some (p_type p, p_suffix p, ns ++ ":" ++ p_suffix p, p_origin p)
    | None => None
    end.

  (* Parser.GetRevealValue / GetCommitment *)
  Definition get_reveal (bytes : string) : option string :=
    match parse_operation bytes true with
    | Some p => if String.eqb (p_type p) "create" then None else Some (p_reveal p)
    | None => None
    end.

  Definition get_commitment (bytes : string) : option string :=
    match parse_operation bytes true with
    | Some p =>
        if String.eqb (p_type p) "update" then match p_delta p with Some d => Some (d_update_c d) | None => None end
        else if String.eqb (p_type p) "deactivate" then Some ""
        else if String.eqb (p_type p) "recover" then
          match parse_signed_recover (p_signed p) with Some sr => Some (sr_recovery_c sr) | None => None end
        else None
    | None => None
    end.

  (* ---- facts about the parser mirror ---- *)

  Lemma size_gate bytes batch :
    (P_MaxOperationSize cfg < Z.of_nat (String.length bytes))%Z -> parse_operation bytes batch = None.
  Proof. intros H. unfold parse_operation. apply Z.ltb_lt in H. now rewrite H. Qed.

  Lemma parse_reports_id ns bytes ty sfx id origin :
    parse ns bytes = Some (ty, sfx, id, origin) -> id = ns ++ ":" ++ sfx.
  Proof.
    unfold parse. destruct (parse_operation bytes false); [|discriminate].
    intros H. injection H as _ <- <- _. reflexivity.
  Qed.

  Lemma update_time_args m p :
    parse_update m false = Some p ->
    exists f un, p_time_args p = Some (f, anchor_until_p cfg f un) /\ time_ok f (anchor_until_p cfg f un) = true.
  Proof.
    unfold parse_update. destruct (common_fields m) as [[[sfx rv] sd]|]; [|discriminate].
    destruct (dec_delta (field "delta" m)) as [od|]; [|discriminate].
    destruct (parse_signed_update sd) as [su|]; [|discriminate]. cbn [negb].
    destruct (time_ok (su_from su) (until_of (su_from su) (su_until su))) eqn:Ht; cbn [andb negb]; [|discriminate].
    destruct (andb (validate_delta od) _); cbn [negb]; [|discriminate].
    destruct (key_matches_reveal (su_key su) rv); cbn [negb]; [|discriminate].
    intros H. injection H as <-. cbn. exists (su_from su), (su_until su). split; [reflexivity|exact Ht].
  Qed.

  Lemma deactivate_suffix_bound m batch p :
    parse_deactivate m batch = Some p ->
    exists sx sd, parse_signed_deactivate sd = Some sx /\ sx_suffix sx = p_suffix p.
  Proof.
    unfold parse_deactivate. destruct (common_fields m) as [[[sfx rv] sd]|]; [|discriminate].
    destruct (parse_signed_deactivate sd) as [sx|] eqn:E; [|discriminate].
    destruct (String.eqb_spec (sx_suffix sx) sfx) as [Es|]; cbn [negb]; [|discriminate].
    destruct (key_matches_reveal (sx_key sx) rv); cbn [negb]; [|discriminate].
    destruct (andb (negb batch) _); [discriminate|].
    intros H. injection H as <-. cbn. eauto.
  Qed.

  Lemma create_suffix m batch p :
    parse_create m batch = Some p ->
    exists sd a rest, p_suffix_data p = Some sd /\ algs = a :: rest /\
      calc_mh (img_suffix_data sd) a = Some (p_suffix p) /\
      (batch = false -> valid_mh (img_delta_opt (p_delta p)) (sd_delta_hash sd) = true).
  Proof.
    unfold parse_create.
    destruct (dec_string (field "type" m)); [|discriminate].
    destruct (dec_suffix_data (field "suffixData" m)) as [osd|]; [|discriminate].
    destruct (dec_delta (field "delta" m)) as [od|]; [|discriminate].
    destruct osd as [sd|]; [|discriminate].
    destruct (negb (andb (validate_multihash (sd_recovery_c sd)) (validate_multihash (sd_delta_hash sd)))); [discriminate|].
    destruct batch.
    - cbn [negb]. destruct algs as [|a rest] eqn:Ea; [discriminate|].
      destruct (calc_mh (img_suffix_data sd) a) as [sfx|] eqn:Ec; [|discriminate].
      intros H. injection H as <-. cbn. exists sd, a, rest. repeat split; auto. discriminate.
    - destruct (origin_ok (sd_origin sd)); cbn [andb negb]; [|discriminate].
      destruct (validate_delta od); cbn [andb negb]; [|discriminate].
      destruct (valid_mh (img_delta_opt od) (sd_delta_hash sd)) eqn:Ev; cbn [andb negb]; [|discriminate].
      destruct (negb (String.eqb _ (sd_recovery_c sd))); cbn [negb]; [|discriminate].
      destruct algs as [|a rest] eqn:Ea; [discriminate|].
      destruct (calc_mh (img_suffix_data sd) a) as [sfx|] eqn:Ec; [|discriminate].
      intros H. injection H as <-. cbn [p_suffix_data p_suffix p_delta]. exists sd, a, rest.
      split; [reflexivity|]. split; [reflexivity|]. split; [exact Ec|]. intros _. exact Ev.
  Qed.
End Parser.

Lemma reveal_matches_key k code rv :
  reveal (img_jwk k) code = Some rv -> key_matches_reveal (Some k) rv = true.
Proof.
  unfold key_matches_reveal, reveal, valid_mh. intros H.
  apply (valid_of_calc Base.Sha2.sha256 Base.Sha2.sha512 Base.Sha2.sha256_length Base.Sha2.sha512_length) in H. exact H.
Qed.

Lemma delta_hash_validates d code h :
  calc_mh (img_delta d) code = Some h -> valid_mh (img_delta_opt (Some d)) h = true.
Proof.
  unfold calc_mh, valid_mh, img_delta_opt. intros H.
  apply (valid_of_calc Base.Sha2.sha256 Base.Sha2.sha512 Base.Sha2.sha256_length Base.Sha2.sha512_length) in H. exact H.
Qed.
