(* Document composer (pkg/versions/1_0/doccomposer/composer.go), patch accessors
   (pkg/patch/patch.go GetAction/GetValue) and the document accessors they use
   (pkg/document).  Mirror over JSON trees; Go maps are association lists compared modulo
   order.  [None] is (nil, error). *)
From Coq Require Import ZArith String List Bool.
From Sidetree Require Import Json.Json Sidetree.JsonPatch.
Import ListNotations.
Open Scope string_scope.

(* ---- patch.Patch accessors ---- *)

Inductive action :=
| AReplace | AAddPublicKeys | ARemovePublicKeys | AAddServices | ARemoveServices
| AJsonPatch | AAddAlsoKnownAs | ARemoveAlsoKnownAs.

Definition action_names : list (string * action) :=
  [("replace", AReplace); ("add-public-keys", AAddPublicKeys);
   ("remove-public-keys", ARemovePublicKeys); ("add-services", AAddServices);
   ("remove-services", ARemoveServices); ("ietf-json-patch", AJsonPatch);
   ("add-also-known-as", AAddAlsoKnownAs); ("remove-also-known-as", ARemoveAlsoKnownAs)].

Fixpoint assoc_str {A} (k : string) (l : list (string * A)) : option A :=
  match l with
  | [] => None
  | (k', v) :: r => if String.eqb k k' then Some v else assoc_str k r
  end.

Definition action_of_string (s : string) : option action := assoc_str s action_names.

(* actionConfig *)
Definition value_key (a : action) : string :=
  match a with
  | AAddPublicKeys => "publicKeys"
  | ARemovePublicKeys => "ids"
  | AAddServices => "services"
  | ARemoveServices => "ids"
  | AJsonPatch => "patches"
  | AReplace => "document"
  | AAddAlsoKnownAs => "uris"
  | ARemoveAlsoKnownAs => "uris"
  end.

Definition action_name (a : action) : string :=
  match a with
  | AReplace => "replace" | AAddPublicKeys => "add-public-keys"
  | ARemovePublicKeys => "remove-public-keys" | AAddServices => "add-services"
  | ARemoveServices => "remove-services" | AJsonPatch => "ietf-json-patch"
  | AAddAlsoKnownAs => "add-also-known-as" | ARemoveAlsoKnownAs => "remove-also-known-as"
  end.

(* Patch.GetAction *)
Definition get_action (p : obj) : option action :=
  match lookup "action" p with
  | Some (JStr s) => action_of_string s
  | _ => None
  end.

(* Patch.GetValue *)
Definition get_value (p : obj) : option json :=
  match get_action p with
  | Some a => lookup (value_key a) p
  | None => None
  end.

(* ---- document accessors ---- *)

(* stringEntry *)
Definition string_entry (o : option json) : string :=
  match o with Some (JStr s) => s | _ => "" end.

Definition entry_id (e : obj) : string := string_entry (lookup "id" e).

(* ParsePublicKeys / ParseServices: the object entries of an array, others skipped *)
Definition parse_objects (o : option json) : list obj :=
  match o with
  | Some (JArr l) => flat_map (fun e => match e with JObj m => [m] | _ => [] end) l
  | _ => []
  end.

(* StringArray: the string entries of an array *)
Definition string_array (o : option json) : list string :=
  match o with
  | Some (JArr l) => flat_map (fun e => match e with JStr s => [s] | _ => [] end) l
  | _ => []
  end.

Definition mem_str (s : string) (l : list string) : bool := existsb (String.eqb s) l.

(* A Go []interface{} built by append from nothing is nil when empty: marshals as null. *)
Definition arr_or_null (l : list json) : json :=
  match l with [] => JNull | _ => JArr l end.

(* ---- per-action semantics ---- *)

(* updateKey/updateService: replace every existing entry with the same id *)
Definition replace_by_id (l : list obj) (e : obj) : list obj :=
  map (fun x => if String.eqb (entry_id x) (entry_id e) then e else x) l.

(* applyAddPublicKeys / applyAddServiceEndpoints: existence is judged against the document
   before the patch *)
Definition add_entries (existing : list obj) (added : list obj) : list obj :=
  let ids := map entry_id existing in
  fold_left (fun acc e => if mem_str (entry_id e) ids then replace_by_id acc e else (acc ++ [e])%list)
            added existing.

Definition remove_entries (existing : list obj) (ids : list string) : list obj :=
  filter (fun e => negb (mem_str (entry_id e) ids)) existing.

Definition apply_add_entries (member : string) (doc : obj) (value : json) : obj :=
  let res := add_entries (parse_objects (lookup member doc)) (parse_objects (Some value)) in
  set_key member (arr_or_null (map JObj res)) doc.

Definition apply_remove_entries (member : string) (doc : obj) (value : json) : obj :=
  let res := remove_entries (parse_objects (lookup member doc)) (string_array (Some value)) in
  set_key member (arr_or_null (map JObj res)) doc.

Definition apply_add_aka (doc : obj) (value : json) : obj :=
  let existing := string_array (lookup "alsoKnownAs" doc) in
  let res := fold_left (fun acc u => if mem_str u existing then acc else (acc ++ [u])%list)
                       (string_array (Some value)) existing in
  set_key "alsoKnownAs" (arr_or_null (map JStr res)) doc.

Definition apply_remove_aka (doc : obj) (value : json) : obj :=
  let rm := string_array (Some value) in
  let res := filter (fun u => negb (mem_str u rm)) (string_array (lookup "alsoKnownAs" doc)) in
  set_key "alsoKnownAs" (arr_or_null (map JStr res)) doc.

(* applyRecover: the replace document must be a JSON object; absent members become null *)
Definition apply_replace (value : json) : option obj :=
  match value with
  | JObj m => Some [("publicKey", node (lookup "publicKeys" m)); ("service", node (lookup "services" m))]
  | JNull => Some [("publicKey", JNull); ("service", JNull)]   (* null unmarshals into a nil map *)
  | _ => None
  end.

(* applyJSON: DecodePatch needs an array of objects; panics of the library are recovered *)
Definition apply_json (doc : obj) (value : json) : option obj :=
  match value with
  | JArr ops =>
      match jsonpatch_apply doc ops with
      | POk d => Some d
      | _ => None
      end
  | JNull => Some doc      (* null decodes as an empty patch *)
  | _ => None
  end.

(* applyPatch *)
Definition apply_patch (doc : obj) (pj : json) : option obj :=
  match pj with
  | JObj p =>
      match get_action p, get_value p with
      | Some a, Some v =>
          match a with
          | AReplace => apply_replace v
          | AJsonPatch => apply_json doc v
          | AAddPublicKeys => Some (apply_add_entries "publicKey" doc v)
          | ARemovePublicKeys => Some (apply_remove_entries "publicKey" doc v)
          | AAddServices => Some (apply_add_entries "service" doc v)
          | ARemoveServices => Some (apply_remove_entries "service" doc v)
          | AAddAlsoKnownAs => Some (apply_add_aka doc v)
          | ARemoveAlsoKnownAs => Some (apply_remove_aka doc v)
          end
      | _, _ => None
      end
  | _ => None
  end.

(* ApplyPatches: left fold, any failure fails the whole list (no partial document) *)
Fixpoint apply_patches (doc : obj) (ps : list json) : option obj :=
  match ps with
  | [] => Some doc
  | p :: r => match apply_patch doc p with
              | Some d => apply_patches d r
              | None => None
              end
  end.

(* Since applyJSON applies operations one at a time the tree model is exact for every patch
   list; kept as a predicate so that the judges state their domain explicitly. *)
Definition patch_in_domain (pj : json) : bool := true.
Definition patches_in_domain (ps : list json) : bool := forallb patch_in_domain ps.

(* ---- comparison modulo member order ---- *)

Fixpoint insert_sorted (kv : string * json) (l : obj) : obj :=
  match l with
  | [] => [kv]
  | kv' :: r => if String.leb (fst kv) (fst kv') then kv :: l else kv' :: insert_sorted kv r
  end.

Fixpoint sortv (j : json) : json :=
  match j with
  | JArr l => JArr (map sortv l)
  | JObj m => JObj (fold_right (fun kv acc => insert_sorted (fst kv, sortv (snd kv)) acc) [] m)
  | _ => j
  end.

Definition json_equiv (a b : json) : bool := json_eqb (sortv a) (sortv b).
Definition obj_equiv (a b : obj) : bool := json_equiv (JObj a) (JObj b).

(* ---- atomicity of failure (C12): a list failing at the k-th patch yields no document ---- *)

Lemma apply_patches_app doc ps1 ps2 :
  apply_patches doc (ps1 ++ ps2)%list =
  match apply_patches doc ps1 with Some d => apply_patches d ps2 | None => None end.
Proof.
  revert doc. induction ps1 as [|p ps1 IH]; intros doc; cbn; [reflexivity|].
  destruct (apply_patch doc p); [apply IH|reflexivity].
Qed.

Lemma apply_patches_fails_at doc ps1 p ps2 d :
  apply_patches doc ps1 = Some d -> apply_patch d p = None ->
  apply_patches doc (ps1 ++ p :: ps2)%list = None.
Proof. intros H1 H2. rewrite apply_patches_app, H1. cbn. now rewrite H2. Qed.

Lemma apply_patches_is_fold doc ps :
  apply_patches doc ps =
  fold_left (fun acc p => match acc with Some d => apply_patch d p | None => None end) ps (Some doc).
Proof.
  revert doc. induction ps as [|p ps IH]; intros doc; cbn; [reflexivity|].
  destruct (apply_patch doc p) as [d|]; [apply IH|].
  clear. induction ps; cbn; auto.
Qed.
