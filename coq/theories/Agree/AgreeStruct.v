(* Agreement between the structure regenerated from /repo (Gen/GenStruct.v) and what the
   C19 / C20 / C12 arguments rely on. *)
From Coq Require Import String List Bool.
From Sidetree Require Import Sidetree.Conc.
From SidetreeGen Require Import GenStruct.
Import ListNotations.
Open Scope string_scope.

(* C20: every registry method is one lock-protected section; Register checks and inserts inside
   a single write section *)
Lemma lock_programs_agree :
  gen_lock_programs =
  [("Provider.Add", [Lock; MapWrite; Unlock]);
   ("Provider.ForNamespace", [RLock; MapRead; RUnlock]);
   ("Registry.Register", [Lock; MapRead; MapWrite; Unlock]);
   ("Registry.resolveFactory", [RLock; MapRead; RUnlock])].
Proof. reflexivity. Qed.

Lemma lock_programs_well_locked : forallb (fun p => well_locked (snd p)) gen_lock_programs = true.
Proof. vm_compute. reflexivity. Qed.

(* C20 / C12: no method of the shared components writes a receiver field or a package-level
   variable (the only receiver writes are the JSON decoders of jwsutil.JWK, on fresh values) *)
Lemma receiver_writes_agree :
  gen_receiver_writes =
  [("jwsutil:UnmarshalJSON", "*b"); ("jwsutil:UnmarshalJSON", "*j"); ("jwsutil:UnmarshalJSON", "j.Crv");
   ("jwsutil:UnmarshalJSON", "j.JSONWebKey"); ("jwsutil:UnmarshalJSON", "j.Kty")].
Proof. reflexivity. Qed.

Lemma global_writes_agree : gen_global_writes = [].
Proof. reflexivity. Qed.

(* C19: reviewed inventory of explicit panics and unchecked type assertions in the in-scope
   packages (values supplied by the library itself, see DESIGN appendix D), and the recover
   around the JSON patch library *)
Lemma panic_sites_agree :
  gen_panic_sites =
  [("didtransformer:TransformDocument", "assert:id"); ("jsoncanonicalizer:Transform", "assert:e.Value");
   ("jsoncanonicalizer:Transform", "assert:e.Value"); ("jsoncanonicalizer:Transform", "assert:e.Value");
   ("jwsutil:PublicKeyBytes", "assert:j.Key"); ("metadata:CreateDocumentMetadata", "assert:published")].
Proof. reflexivity. Qed.

Lemma recover_sites_agree : gen_recover_sites = ["doccomposer:applyJSON"].
Proof. reflexivity. Qed.

(* C17: no map is ranged over in an order-sensitive way on the create path *)
Lemma map_ranges_agree : gen_order_sensitive_map_ranges = [].
Proof. reflexivity. Qed.
