(* Agreement between the typed decision functions regenerated from /repo (Gen/GenTyped.v) and the
   hand-written model.  The oracles of the generated section are instantiated with the model's
   own functions (the id regular expression, whose source text is tied in AgreeTables.v, and the
   multihash decoder). *)
From Coq Require Import ZArith NArith Bool String List Lia.
From Sidetree Require Import Base.GoInt Json.Json Sidetree.Composer Sidetree.Validator Sidetree.Hashing.
From SidetreeGen Require Import GenTyped.
Import ListNotations.
Open Scope string_scope.

(* operationparser.contains (allowed signature algorithms, allowed curves) is list membership by
   exact string equality *)
Lemma contains_agrees vs v : parser_contains vs v = mem_str v vs.
Proof.
  unfold parser_contains, mem_str.
  assert (E : existsb (fun x => String.eqb x v) vs = existsb (String.eqb v) vs).
  { induction vs as [|x r IH]; cbn; [reflexivity|]. now rewrite IH, String.eqb_sym. }
  rewrite E. destruct (existsb (String.eqb v) vs); reflexivity.
Qed.

(* patchvalidator.validateID *)
Lemma validate_id_agrees id : pv_validateID regex_match id = validate_id id.
Proof.
  unfold pv_validateID, validate_id, max_id_length.
  destruct (Z.gtb_spec (Z.of_nat (String.length id)) 50) as [G|G];
    destruct (Nat.ltb_spec 50 (String.length id)) as [H|H]; try lia; try reflexivity.
  destruct (regex_match id); reflexivity.
Qed.

(* patchvalidator.validateServiceID / validateServiceType: the two leading checks of validate_service *)
Lemma validate_service_id_agrees id :
  pv_validateServiceID regex_match id = andb (negb (String.eqb id "")) (validate_id id).
Proof.
  unfold pv_validateServiceID. rewrite validate_id_agrees.
  destruct (String.eqb id ""); cbn; [reflexivity|]. destruct (validate_id id); reflexivity.
Qed.

Lemma validate_service_type_agrees ty :
  pv_validateServiceType ty = andb (negb (String.eqb ty "")) (negb (Nat.ltb max_service_type_length (String.length ty))).
Proof.
  unfold pv_validateServiceType, max_service_type_length.
  destruct (String.eqb ty ""); cbn [negb andb]; [reflexivity|].
  destruct (Z.gtb_spec (Z.of_nat (String.length ty)) 30) as [G|G];
    destruct (Nat.ltb_spec 30 (String.length ty)) as [H|H]; try lia; reflexivity.
Qed.

(* ... and validate_service is exactly: service id check, type check, endpoint check *)
Lemma validate_service_decomposes uri_ok m :
  validate_service uri_ok m =
  andb (pv_validateServiceID regex_match (entry_id m))
       (andb (pv_validateServiceType (string_entry (lookup "type" m))) (validate_endpoint uri_ok (lookup "serviceEndpoint" m))).
Proof.
  rewrite validate_service_id_agrees, validate_service_type_agrees. unfold validate_service.
  destruct (String.eqb (entry_id m) ""); cbn [negb andb]; [reflexivity|].
  destruct (validate_id (entry_id m)); cbn [negb andb]; [|reflexivity].
  destruct (String.eqb (string_entry (lookup "type" m)) ""); cbn [negb andb]; [reflexivity|].
  destruct (Nat.ltb _ _); reflexivity.
Qed.

(* hashing.IsComputedUsingMultihashAlgorithms: the code of the hash is one of the given codes - any
   of them, in any position (codes as configured: unsigned 64-bit values) *)
Lemma computed_using_agrees s codes :
  Forall (fun c => (0 <= c < two64)%Z) codes ->
  hashing_IsComputedUsingMultihashAlgorithms (fun x => option_map Z.of_N (mh_code x)) s codes = computed_using s (map Z.to_N codes).
Proof.
  intros H. unfold hashing_IsComputedUsingMultihashAlgorithms, computed_using, is_computed_using, mh_code.
  destruct (get_mh_code s) as [c|]; cbn [option_map]; [|reflexivity].
  assert (E : existsb (fun x => Z.eqb (Z.of_N c) (to_u64 x)) codes = existsb (N.eqb c) (map Z.to_N codes)).
  { induction H as [|x r Hx _ IH]; cbn; [reflexivity|]. rewrite IH. f_equal.
    unfold to_u64. rewrite Z.mod_small by exact Hx.
    destruct (N.eqb_spec c (Z.to_N x)) as [->|Hne].
    - rewrite Z2N.id by lia. apply Z.eqb_refl.
    - apply Z.eqb_neq. intros Heq. apply Hne. rewrite <- Heq. now rewrite N2Z.id. }
  rewrite E. destruct (existsb (N.eqb c) (map Z.to_N codes)); reflexivity.
Qed.

(* ---- methods of the operation parser that read protocol parameters ---- *)
From Sidetree Require Import Base.Base64url Sidetree.Protocol Sidetree.Parser.

(* the configured values are what Go's unsigned fields hold, and the two limits fit an int *)
Definition protocol_in_range (cfg : protocol) : Prop :=
  Forall (fun c => (0 <= c < two64)%Z) (P_MultihashAlgorithms cfg) /\
  (0 <= P_MaxOperationHashLength cfg < two63)%Z /\ (0 <= P_NonceSize cfg < two63)%Z.

Lemma to_i64_small x : (0 <= x < two63)%Z -> to_i64 x = x.
Proof. intros H. apply to_i64_id. unfold in_i64. unfold two63 in *. lia. Qed.

(* Parser.validateMultihash: within the length limit (inclusive) and computed with one of the
   configured algorithms *)
Lemma validate_multihash_agrees cfg mh alias : protocol_in_range cfg ->
  parser_validateMultihash (fun x => option_map Z.of_N (mh_code x)) cfg mh alias = validate_multihash cfg mh.
Proof.
  intros (Ha & Hl & _). unfold parser_validateMultihash, validate_multihash, algs.
  rewrite (computed_using_agrees _ _ Ha), (to_i64_small _ Hl).
  destruct (Z.gtb_spec (Z.of_nat (String.length mh)) (P_MaxOperationHashLength cfg)) as [G|G];
    destruct (Z.leb_spec (Z.of_nat (String.length mh)) (P_MaxOperationHashLength cfg)) as [L|L]; try lia; cbn [andb]; try reflexivity.
  destruct (computed_using mh _); reflexivity.
Qed.

(* Parser.validateNonce: absent, or decoding to exactly the configured number of octets *)
Lemma validate_nonce_agrees cfg nonce : protocol_in_range cfg ->
  parser_validateNonce b64_decode cfg nonce = validate_nonce cfg nonce.
Proof.
  intros (_ & _ & Hn). unfold parser_validateNonce, validate_nonce. rewrite (to_i64_small _ Hn).
  destruct (String.eqb nonce ""); [reflexivity|].
  destruct (b64_decode nonce) as [b|]; [|reflexivity].
  destruct (Z.eqb _ _); reflexivity.
Qed.

(* jws.JWK.Validate: kty present; RSA keys carry n and e, all others crv and x *)
Lemma jwk_validate_agrees k : jws_Validate k = jwk_valid k.
Proof.
  unfold jws_Validate, jwk_valid.
  destruct (String.eqb (k_kty k) ""); [reflexivity|].
  destruct (String.eqb (k_kty k) "RSA").
  - destruct (String.eqb (k_n k) ""), (String.eqb (k_e k) ""); reflexivity.
  - destruct (String.eqb (k_crv k) ""), (String.eqb (k_x k) ""); reflexivity.
Qed.

(* Parser.validateSigningKey: a key, valid as a JWK, on an allowed curve, with an absent or
   right-sized nonce *)
Lemma validate_signing_key_agrees cfg k : protocol_in_range cfg ->
  parser_validateSigningKey b64_decode cfg k = validate_signing_key cfg k.
Proof.
  intros R. unfold parser_validateSigningKey, validate_signing_key. destruct k as [k|]; [|reflexivity].
  rewrite jwk_validate_agrees, contains_agrees, (validate_nonce_agrees _ _ R).
  destruct (jwk_valid k); cbn [negb andb]; [|reflexivity].
  destruct (mem_str (k_crv k) (P_KeyAlgorithms cfg)); cbn [negb andb]; [|reflexivity].
  destruct (validate_nonce cfg (k_nonce k)); reflexivity.
Qed.

(* the three request validators are one function: suffix and signed data present, reveal value a
   well-formed configured multihash - the conditions of the model's [common_fields] *)
Lemma request_validators_same cfg q :
  parser_validateUpdateRequest (fun x => option_map Z.of_N (mh_code x)) cfg q = parser_validateRecoverRequest (fun x => option_map Z.of_N (mh_code x)) cfg q /\
  parser_validateUpdateRequest (fun x => option_map Z.of_N (mh_code x)) cfg q = parser_validateDeactivateRequest (fun x => option_map Z.of_N (mh_code x)) cfg q.
Proof. split; reflexivity. Qed.

Lemma validate_request_agrees cfg q : protocol_in_range cfg ->
  parser_validateUpdateRequest (fun x => option_map Z.of_N (mh_code x)) cfg q =
  andb (negb (orb (String.eqb (rq_DidSuffix q) "") (String.eqb (rq_SignedData q) ""))) (validate_multihash cfg (rq_RevealValue q)).
Proof.
  intros R. unfold parser_validateUpdateRequest. rewrite (validate_multihash_agrees _ _ _ R).
  destruct (String.eqb (rq_DidSuffix q) ""), (String.eqb (rq_SignedData q) ""); reflexivity.
Qed.

(* ... which is what common_fields demands of the decoded members *)
Lemma common_fields_uses_request_validator cfg m sfx rv sd :
  protocol_in_range cfg ->
  common_fields cfg m = Some (sfx, rv, sd) ->
  parser_validateUpdateRequest (fun x => option_map Z.of_N (mh_code x)) cfg {| rq_DidSuffix := sfx; rq_RevealValue := rv; rq_SignedData := sd |} = true.
Proof.
  intros R. unfold common_fields.
  destruct (dec_string (field "type" m)); [|discriminate]. destruct (dec_string (field "didSuffix" m)) as [a|]; [|discriminate].
  destruct (dec_string (field "revealValue" m)) as [b|]; [|discriminate]. destruct (dec_string (field "signedData" m)) as [c|]; [|discriminate].
  destruct (orb (String.eqb a "") (String.eqb c "")) eqn:Eo; [discriminate|].
  destruct (validate_multihash cfg b) eqn:Ev; cbn [negb]; [|discriminate].
  intros H. injection H as <- <- <-. rewrite (validate_request_agrees _ _ R). cbn [rq_DidSuffix rq_SignedData rq_RevealValue].
  now rewrite Eo, Ev.
Qed.

(* id lists (remove-public-keys / remove-services) and URI lists *)
Lemma validate_ids_agrees ids : pv_validateIds regex_match ids = forallb validate_id ids.
Proof.
  unfold pv_validateIds. induction ids as [|x r IH]; [reflexivity|]. cbn [existsb forallb]. rewrite validate_id_agrees.
  destruct (validate_id x); cbn [negb orb andb]; [exact IH|reflexivity].
Qed.

Lemma validate_uri_agrees uri_ok u : pv_validateURI uri_ok u = validate_uri uri_ok u.
Proof. unfold pv_validateURI, validate_uri. destruct (String.eqb u ""), (uri_ok u); reflexivity. Qed.

Lemma validate_uris_agrees uri_ok us : pv_validateURIs uri_ok us = forallb (validate_uri uri_ok) us.
Proof.
  unfold pv_validateURIs. induction us as [|x r IH]; [reflexivity|]. cbn [existsb forallb]. rewrite validate_uri_agrees.
  destruct (validate_uri uri_ok x); cbn [negb orb andb]; [exact IH|reflexivity].
Qed.

(* ---- commitments and signed data ---- *)

Definition code_oracle (x : string) : option Z := option_map Z.of_N (mh_code x).
Definition commit_oracle (k : option jwk) (code : Z) : option string :=
  match k with Some k' => commit (img_jwk k') (Z.to_N code) | None => None end.

(* Parser.validateCommitment: the next commitment is not the commitment of the key in hand (under
   the next commitment's own algorithm).  The multihash code is a uint64 in Go; codes read from a
   multihash are below 2^63 (nine varint octets: Multihash.mh_decode_code_lt). *)
Lemma mh_code_small s c : mh_code s = Some c -> (Z.of_N c < two64)%Z.
Proof.
  unfold mh_code, get_mh_code, get_multihash. destruct (b64_decode s) as [b|]; [|discriminate].
  destruct (Base.Multihash.mh_decode b) as [[c' d]|] eqn:E; [|discriminate]. cbn. intros H. injection H as <-.
  apply Base.Multihash.mh_decode_code_lt in E. unfold two64.
  assert (H : (Z.of_N c' < Z.of_N (2 ^ 63))%Z) by (apply N2Z.inj_lt; exact E).
  eapply Z.lt_trans; [exact H|]. reflexivity.
Qed.

Lemma validate_commitment_agrees cfg k next :
  parser_validateCommitment commit_oracle code_oracle cfg (Some k) next = validate_commitment k next.
Proof.
  pose proof (mh_code_small next) as Hc. unfold parser_validateCommitment, validate_commitment, code_oracle, commit_oracle.
  destruct (mh_code next) as [c|] eqn:Ec; cbn [option_map]; [|reflexivity].
  unfold to_u64. rewrite Z.mod_small by (split; [apply N2Z.is_nonneg|apply Hc; reflexivity]). rewrite N2Z.id.
  destruct (commit (img_jwk k) c) as [cur|]; [|reflexivity].
  destruct (String.eqb cur next); reflexivity.
Qed.

(* Parser.validateSignedDataForUpdate / ...ForRecovery / ValidateSuffixData: the conditions under
   which the model's signed-data and create parsers go on *)
Lemma validate_signed_update_agrees cfg su : protocol_in_range cfg ->
  parser_validateSignedDataForUpdate b64_decode code_oracle cfg su =
  andb (validate_signing_key cfg (su_key su)) (validate_multihash cfg (su_delta_hash su)).
Proof.
  intros R. unfold parser_validateSignedDataForUpdate.
  rewrite (validate_signing_key_agrees _ _ R). unfold code_oracle. rewrite (validate_multihash_agrees _ _ _ R).
  destruct (validate_signing_key cfg (su_key su)); reflexivity.
Qed.

Lemma validate_signed_recover_agrees cfg sr k :
  protocol_in_range cfg -> sr_key sr = Some k ->
  parser_validateSignedDataForRecovery b64_decode commit_oracle code_oracle cfg sr =
  andb (validate_signing_key cfg (sr_key sr))
       (andb (validate_multihash cfg (sr_recovery_c sr)) (andb (validate_multihash cfg (sr_delta_hash sr)) (validate_commitment k (sr_recovery_c sr)))).
Proof.
  intros R Hk. unfold parser_validateSignedDataForRecovery.
  rewrite (validate_signing_key_agrees _ _ R). unfold code_oracle at 1 2. rewrite !(validate_multihash_agrees _ _ _ R).
  rewrite Hk at 2. rewrite (validate_commitment_agrees cfg k).
  destruct (validate_signing_key cfg (sr_key sr)); cbn [negb andb]; [|reflexivity].
  destruct (validate_multihash cfg (sr_recovery_c sr)); cbn [negb andb]; [|reflexivity].
  destruct (validate_multihash cfg (sr_delta_hash sr)); reflexivity.
Qed.

Lemma validate_suffix_data_agrees cfg sd : protocol_in_range cfg ->
  parser_ValidateSuffixData code_oracle cfg (Some sd) =
  andb (validate_multihash cfg (sd_recovery_c sd)) (validate_multihash cfg (sd_delta_hash sd)).
Proof.
  intros R. unfold parser_ValidateSuffixData, code_oracle. rewrite !(validate_multihash_agrees _ _ _ R).
  destruct (validate_multihash cfg (sd_recovery_c sd)); reflexivity.
Qed.
