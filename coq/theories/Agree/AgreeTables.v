(* Agreement between tables / constants regenerated from /repo (Gen/GenTables.v) and the
   hand-written model.  A changed table entry, limit, member name or escape breaks a lemma. *)
From Coq Require Import ZArith NArith String List Bool Ascii.
From Sidetree Require Import Json.Json Json.Jcs Json.Parse Sidetree.Composer Sidetree.Validator Sidetree.Hashing.
From SidetreeGen Require Import GenTables.
Import ListNotations.
Open Scope string_scope.

Definition same_strs (a b : list string) : bool :=
  Nat.eqb (length a) (length b) && forallb (fun x => mem_str x b) a && forallb (fun x => mem_str x a) b.

Lemma max_id_length_agrees : gen_max_id_length = Z.of_nat max_id_length.
Proof. reflexivity. Qed.
(* the canonicalizer's nesting limit (fix c362f28) *)
Lemma max_nesting_depth_agrees : gen_max_nesting_depth = Z.of_N max_nesting_depth.
Proof. reflexivity. Qed.

Lemma max_service_type_length_agrees : gen_max_service_type_length = Z.of_nat max_service_type_length.
Proof. reflexivity. Qed.
Lemma id_regexp_agrees : gen_id_regexp = id_regexp_source.
Proof. reflexivity. Qed.

Lemma purposes_agree : same_strs gen_allowed_purposes purposes_all = true.
Proof. vm_compute. reflexivity. Qed.
Lemma key_types_general_agree : same_strs gen_key_types_general key_types_general = true.
Proof. vm_compute. reflexivity. Qed.
Lemma key_types_verification_agree : same_strs gen_key_types_verification key_types_verification = true.
Proof. vm_compute. reflexivity. Qed.
Lemma key_types_agreement_agree : same_strs gen_key_types_agreement key_types_agreement = true.
Proof. vm_compute. reflexivity. Qed.

(* purpose -> table: the model's key_types_for picks the same table for every purpose *)
Definition table_named (n : string) : list string :=
  if String.eqb n "allowedKeyTypesVerification" then gen_key_types_verification
  else if String.eqb n "allowedKeyTypesAgreement" then gen_key_types_agreement
  else if String.eqb n "allowedKeyTypesGeneral" then gen_key_types_general
  else [].
Lemma allowed_key_types_agree :
  forallb (fun pn => match key_types_for (fst pn) with
                     | Some l => same_strs l (table_named (snd pn))
                     | None => false end) gen_allowed_key_types = true
  /\ same_strs (map fst gen_allowed_key_types) purposes_all = true.
Proof. vm_compute. split; reflexivity. Qed.

(* actionConfig *)
Lemma action_config_agrees :
  forallb (fun av => match action_of_string (fst av) with
                     | Some a => String.eqb (value_key a) (snd av) && String.eqb (action_name a) (fst av)
                     | None => false end) gen_action_config = true
  /\ length gen_action_config = length action_names.
Proof. vm_compute. split; reflexivity. Qed.

Lemma document_members_agree :
  gen_doc_public_key = "publicKey" /\ gen_doc_service = "service" /\ gen_doc_also_known_as = "alsoKnownAs" /\
  gen_doc_id = "id" /\ gen_replace_public_keys = "publicKeys" /\ gen_replace_services = "services" /\
  gen_doc_context = "@context" /\ gen_namespace_delimiter = ":".
Proof. repeat split; reflexivity. Qed.

(* hashing.GetHashFromMultihash *)
Lemma hash_codes_agree : gen_hash_codes = [(18%Z, "SHA256"); (19%Z, "SHA512")].
Proof. reflexivity. Qed.

(* jwsutil.parseEllipticCurve: curve -> (key size, hash) *)
Lemma verify_curves_agree :
  gen_verify_curves = [("P-256", "32/SHA256"); ("P-384", "48/SHA384"); ("P-521", "66/SHA512"); ("secp256k1", "32/SHA256")].
Proof. reflexivity. Qed.

(* JCS escape tables: binaryEscapes[i] is written as backslash + asciiEscapes[i], and that is
   exactly what the model's escape_body does for each of them *)
Lemma jcs_escapes_agree :
  forallb (fun p => String.eqb (escape_body (String (ascii_of_N (Z.to_N (fst p))) ""))
                               (String "\" (String (ascii_of_N (Z.to_N (snd p))) "")))
          (combine gen_jcs_binary_escapes gen_jcs_ascii_escapes) = true
  /\ length gen_jcs_binary_escapes = 7%nat /\ gen_jcs_literals = ["true"; "false"; "null"].
Proof. vm_compute. repeat split; reflexivity. Qed.

(* ecsigner.getHasher: the signer hashes with the same function the verifier's curve table names *)
Lemma sign_hashers_agree :
  gen_sign_hashers = [("btcec.S256", "SHA256"); ("elliptic.P256", "SHA256"); ("elliptic.P384", "SHA384"); ("elliptic.P521", "SHA512")].
Proof. reflexivity. Qed.

(* the protocol the long-form document handler runs with *)
From Sidetree Require Import Sidetree.LongForm.
Lemma longform_protocol_agrees : gen_longform_protocol = longform_protocol.
Proof. reflexivity. Qed.
