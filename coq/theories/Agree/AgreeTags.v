(* The request models' JSON member names (struct tags in pkg/versions/1_0/model and pkg/jws),
   regenerated from /repo, against the names the parser mirror decodes and the images it
   hashes; and the protected headers the parser allows. *)
From Coq Require Import ZArith String List Bool.
From Sidetree Require Import Json.Json Sidetree.Composer Sidetree.Parser Sidetree.JequivDecode.
From SidetreeGen Require Import GenTables.
Import ListNotations.
Open Scope string_scope.

(* (Go struct, [(field, json name, omitempty)]) as reviewed *)
Definition model_struct_tags : list (string * list (string * string * bool)) :=
  [("CreateRequest", [("Operation", "type", true); ("SuffixData", "suffixData", true); ("Delta", "delta", true)]);
   ("DeactivateRequest", [("Operation", "type", false); ("DidSuffix", "didSuffix", false); ("RevealValue", "revealValue", false); ("SignedData", "signedData", false)]);
   ("DeactivateSignedDataModel", [("DidSuffix", "didSuffix", false); ("RevealValue", "revealValue", false); ("RecoveryKey", "recoveryKey", false); ("AnchorFrom", "anchorFrom", true); ("AnchorUntil", "anchorUntil", true)]);
   ("DeltaModel", [("UpdateCommitment", "updateCommitment", true); ("Patches", "patches", true)]);
   ("RecoverRequest", [("Operation", "type", false); ("DidSuffix", "didSuffix", false); ("RevealValue", "revealValue", false); ("SignedData", "signedData", false); ("Delta", "delta", false)]);
   ("RecoverSignedDataModel", [("DeltaHash", "deltaHash", false); ("RecoveryKey", "recoveryKey", false); ("RecoveryCommitment", "recoveryCommitment", false); ("AnchorOrigin", "anchorOrigin", true); ("AnchorFrom", "anchorFrom", true); ("AnchorUntil", "anchorUntil", true)]);
   ("SuffixDataModel", [("DeltaHash", "deltaHash", true); ("RecoveryCommitment", "recoveryCommitment", true); ("AnchorOrigin", "anchorOrigin", true); ("Type", "type", true)]);
   ("UpdateRequest", [("Operation", "type", false); ("DidSuffix", "didSuffix", false); ("RevealValue", "revealValue", false); ("SignedData", "signedData", false); ("Delta", "delta", false)]);
   ("UpdateSignedDataModel", [("UpdateKey", "updateKey", false); ("DeltaHash", "deltaHash", false); ("AnchorFrom", "anchorFrom", true); ("AnchorUntil", "anchorUntil", true)]);
   ("JWK", [("Kty", "kty", false); ("Crv", "crv", false); ("X", "x", false); ("Y", "y", false); ("N", "n", true); ("E", "e", true); ("Nonce", "nonce", true)])].

Lemma struct_tags_agree : gen_struct_tags = model_struct_tags.
Proof. reflexivity. Qed.

Definition json_names (st : string) : list string :=
  match assoc_str st model_struct_tags with Some fs => map (fun f => snd (fst f)) fs | None => [] end.

(* the images the mirror hashes use exactly these names, in declaration order *)
Lemma suffix_data_image_names s : incl (keys (sd_members s)) (json_names "SuffixDataModel").
Proof.
  destruct s as [dh rc o ty]. unfold sd_members, opt_member. cbn [sd_delta_hash sd_recovery_c sd_origin sd_type].
  destruct (String.eqb dh ""), (String.eqb rc ""), (String.eqb ty ""), o; cbn; intros k H; cbn in H; intuition (subst; cbn; tauto).
Qed.

Lemma delta_image_names d : incl (keys (delta_members d)) (json_names "DeltaModel").
Proof.
  unfold delta_members, opt_member. destruct (String.eqb (d_update_c d) ""), (d_patches d); cbn; intros k H; cbn in H; intuition (subst; cbn; tauto).
Qed.

Lemma create_image_names ty s d : incl (keys (create_members ty s d)) (json_names "CreateRequest").
Proof.
  unfold create_members, opt_member. destruct (String.eqb ty ""); cbn; intros k H; cbn in H; intuition (subst; cbn; tauto).
Qed.

Lemma jwk_image_names k : match img_jwk k with JObj m => incl (keys m) (json_names "JWK") | _ => False end.
Proof.
  unfold img_jwk, opt_member. destruct (String.eqb (k_n k) ""), (String.eqb (k_e k) ""), (String.eqb (k_nonce k) ""); cbn; intros x H; cbn in H; intuition (subst; cbn; tauto).
Qed.

(* validateProtectedHeaders *)
Lemma allowed_headers_agree : gen_allowed_headers = ["alg"; "kid"].
Proof. reflexivity. Qed.
