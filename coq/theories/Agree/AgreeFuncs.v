(* Agreement between the functions regenerated from /repo (Gen/GenFuncs.v) and the
   hand-written mirrors.  A source change that alters one of these functions breaks a lemma
   here deterministically. *)
From Coq Require Import ZArith Bool.
From Sidetree Require Import Base.GoInt Sidetree.Protocol Sidetree.Window.
From SidetreeGen Require Import GenFuncs.
Open Scope Z_scope.

Lemma applier_until_agrees p f u : applier_getAnchorUntil p f u = anchor_until_p p f u.
Proof. reflexivity. Qed.

Lemma applier_window_agrees p f u a : applier_verifyAnchoringTimeRange p f u a = verify_range_p p f u a.
Proof. reflexivity. Qed.

Lemma parser_until_agrees p f u : parser_getAnchorUntil p f u = anchor_until_p p f u.
Proof. reflexivity. Qed.

(* metadata.sortOperations: the comparator regenerated from the source is the lexicographic
   (transaction time, transaction number) order of the model *)
From Sidetree Require Import Sidetree.Transformer.
Lemma metadata_less_agrees a b : metadata_less a b = op_less a b.
Proof. reflexivity. Qed.
