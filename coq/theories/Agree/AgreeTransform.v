(* Transformer constants regenerated from /repo against the transformer model. *)
From Coq Require Import String List Bool.
From Sidetree Require Import Json.Json Sidetree.Composer Sidetree.Transformer.
From SidetreeGen Require Import GenTables.
Import ListNotations.
Open Scope string_scope.

Lemma did_context_agrees : gen_did_context = "https://www.w3.org/ns/did/v1".
Proof. reflexivity. Qed.

Lemma did_resolution_context_agrees : gen_did_resolution_context = "https://w3id.org/did-resolution/v1".
Proof. reflexivity. Qed.

(* the same key type -> context table, as a set of pairs *)
Lemma key_context_map_agrees :
  length gen_key_context_map = length default_key_ctx /\
  forallb (fun p => match assoc_str (fst p) default_key_ctx with Some c => String.eqb c (snd p) | None => false end) gen_key_context_map = true.
Proof. vm_compute. split; reflexivity. Qed.

(* the model's transformer uses these two contexts *)
Lemma contexts_used o did :
  match transform_doc o did [] with
  | Some d => match lookup "@context" d with Some (JArr (c :: _)) => c = JStr gen_did_context | _ => False end
  | None => False
  end.
Proof. reflexivity. Qed.
