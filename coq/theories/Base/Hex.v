(* hx "6162" = "ab": lets the harness hand arbitrary byte strings to the model. *)
From Coq Require Import String Ascii NArith.
Open Scope string_scope.

Definition hexval (c : ascii) : N :=
  let n := N_of_ascii c in
  if andb (N.leb 48 n) (N.leb n 57) then n - 48
  else if andb (N.leb 97 n) (N.leb n 102) then n - 87
  else 0.

Fixpoint hx (s : string) : string :=
  match s with
  | String a (String b r) => String (ascii_of_N (hexval a * 16 + hexval b)) (hx r)
  | _ => EmptyString
  end.

Example hx_ab : hx "6162" = "ab". Proof. reflexivity. Qed.
