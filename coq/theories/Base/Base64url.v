(* encoding/base64.RawURLEncoding as used by pkg/encoder: unpadded base64url.
   Decoder = Go's non-strict DecodeString: CR and LF are skipped anywhere, '=' and any other
   byte outside the alphabet is an error, a final group of 1 character is an error, spare
   trailing bits of the last character are NOT checked. *)
From Coq Require Import NArith String Ascii List Bool Lia.
From Sidetree Require Import Base.Sha2.
Import ListNotations.
Open Scope N_scope.

Definition b64_char (n : N) : N :=
  if n <? 26 then 65 + n
  else if n <? 52 then 97 + (n - 26)
  else if n <? 62 then 48 + (n - 52)
  else if n =? 62 then 45      (* '-' *)
  else 95.                     (* '_' *)

Definition b64_val (c : N) : option N :=
  if andb (65 <=? c) (c <=? 90) then Some (c - 65)
  else if andb (97 <=? c) (c <=? 122) then Some (c - 97 + 26)
  else if andb (48 <=? c) (c <=? 57) then Some (c - 48 + 52)
  else if c =? 45 then Some 62
  else if c =? 95 then Some 63
  else None.

Fixpoint b64_encode_bytes (l : list N) : list N :=
  match l with
  | a :: b :: c :: r =>
      b64_char (a / 4) :: b64_char ((a mod 4) * 16 + b / 16) ::
      b64_char ((b mod 16) * 4 + c / 64) :: b64_char (c mod 64) :: b64_encode_bytes r
  | [a; b] => [b64_char (a / 4); b64_char ((a mod 4) * 16 + b / 16); b64_char ((b mod 16) * 4)]
  | [a] => [b64_char (a / 4); b64_char ((a mod 4) * 16)]
  | [] => []
  end.

Definition b64_encode (s : string) : string := string_of_bytes (b64_encode_bytes (bytes_of_string s)).

(* values of the alphabet characters, CR/LF dropped; None on a foreign character *)
Fixpoint b64_vals (l : list N) : option (list N) :=
  match l with
  | [] => Some []
  | c :: r =>
      if orb (c =? 13) (c =? 10) then b64_vals r else
      match b64_val c, b64_vals r with
      | Some v, Some vs => Some (v :: vs)
      | _, _ => None
      end
  end.

Fixpoint b64_decode_vals (l : list N) : option (list N) :=
  match l with
  | a :: b :: c :: d :: r =>
      match b64_decode_vals r with
      | Some bs => Some ((a * 4 + b / 16) :: ((b mod 16) * 16 + c / 4) :: ((c mod 4) * 64 + d) :: bs)
      | None => None
      end
  | [a; b; c] => Some [(a * 4 + b / 16); ((b mod 16) * 16 + c / 4)]
  | [a; b] => Some [(a * 4 + b / 16)]
  | [_] => None
  | [] => Some []
  end.

Definition b64_decode (s : string) : option string :=
  match b64_vals (bytes_of_string s) with
  | Some vs => match b64_decode_vals vs with
               | Some bs => Some (string_of_bytes bs)
               | None => None
               end
  | None => None
  end.

(* ---- round trip on byte lists ---- *)

Definition is_byte (n : N) : Prop := n < 256.

Lemma b64_val_char n : n < 64 -> b64_val (b64_char n) = Some n.
Proof.
  intros H. unfold b64_char, b64_val.
  destruct (N.ltb_spec n 26).
  { replace (andb (65 <=? 65 + n) (65 + n <=? 90)) with true.
    - f_equal. lia.
    - symmetry. apply andb_true_intro. split; apply N.leb_le; lia. }
  destruct (N.ltb_spec n 52).
  { replace (andb (65 <=? 97 + (n - 26)) (97 + (n - 26) <=? 90)) with false.
    2:{ symmetry. apply andb_false_intro2. apply N.leb_gt. lia. }
    replace (andb (97 <=? 97 + (n - 26)) (97 + (n - 26) <=? 122)) with true.
    - f_equal. lia.
    - symmetry. apply andb_true_intro. split; apply N.leb_le; lia. }
  destruct (N.ltb_spec n 62).
  { replace (andb (65 <=? 48 + (n - 52)) (48 + (n - 52) <=? 90)) with false.
    2:{ symmetry. apply andb_false_intro1. apply N.leb_gt. lia. }
    replace (andb (97 <=? 48 + (n - 52)) (48 + (n - 52) <=? 122)) with false.
    2:{ symmetry. apply andb_false_intro1. apply N.leb_gt. lia. }
    replace (andb (48 <=? 48 + (n - 52)) (48 + (n - 52) <=? 57)) with true.
    - f_equal. lia.
    - symmetry. apply andb_true_intro. split; apply N.leb_le; lia. }
  destruct (N.eqb_spec n 62) as [->|N62]; [reflexivity|].
  assert (n = 63) by lia. subst. reflexivity.
Qed.

Lemma b64_char_not_crlf n : (b64_char n =? 13) = false /\ (b64_char n =? 10) = false.
Proof.
  unfold b64_char.
  destruct (n <? 26); [split; apply N.eqb_neq; lia|].
  destruct (n <? 52); [split; apply N.eqb_neq; lia|].
  destruct (n <? 62); [split; apply N.eqb_neq; lia|].
  destruct (n =? 62); split; reflexivity.
Qed.

Lemma b64_vals_chars (ns : list N) :
  Forall (fun n => n < 64) ns -> b64_vals (map b64_char ns) = Some ns.
Proof.
  induction 1 as [|n ns Hn Hns IH]; cbn [map b64_vals]; [reflexivity|].
  destruct (b64_char_not_crlf n) as [E1 E2]. rewrite E1, E2. cbn [orb].
  rewrite b64_val_char by assumption. rewrite IH. reflexivity.
Qed.

(* the 6-bit groups of a byte list *)
Fixpoint sextets (l : list N) : list N :=
  match l with
  | a :: b :: c :: r =>
      (a / 4) :: ((a mod 4) * 16 + b / 16) :: ((b mod 16) * 4 + c / 64) :: (c mod 64) :: sextets r
  | [a; b] => [(a / 4); ((a mod 4) * 16 + b / 16); ((b mod 16) * 4)]
  | [a] => [(a / 4); ((a mod 4) * 16)]
  | [] => []
  end.

Lemma encode_is_map l : b64_encode_bytes l = map b64_char (sextets l).
Proof.
  revert l. fix IH 1. intros [|a [|b [|c r]]]; cbn [b64_encode_bytes sextets map]; try reflexivity.
  rewrite IH. reflexivity.
Qed.

Lemma sextets_small l : Forall is_byte l -> Forall (fun n => n < 64) (sextets l).
Proof.
  revert l. fix IH 1. intros [|a [|b [|c r]]] H; cbn [sextets].
  - constructor.
  - inversion_clear H as [|? ? Ha _]. unfold is_byte in *.
    repeat constructor.
    + apply N.div_lt_upper_bound; lia.
    + pose proof (N.mod_upper_bound a 4 ltac:(lia)). lia.
  - inversion_clear H as [|? ? Ha H']. inversion_clear H' as [|? ? Hb _]. unfold is_byte in *.
    pose proof (N.mod_upper_bound a 4 ltac:(lia)). pose proof (N.mod_upper_bound b 16 ltac:(lia)).
    assert (b / 16 < 16) by (apply N.div_lt_upper_bound; lia).
    repeat constructor; try lia. apply N.div_lt_upper_bound; lia.
  - inversion_clear H as [|? ? Ha H']. inversion_clear H' as [|? ? Hb H'']. inversion_clear H'' as [|? ? Hc Hr].
    unfold is_byte in *.
    pose proof (N.mod_upper_bound a 4 ltac:(lia)). pose proof (N.mod_upper_bound b 16 ltac:(lia)).
    pose proof (N.mod_upper_bound c 64 ltac:(lia)).
    assert (b / 16 < 16) by (apply N.div_lt_upper_bound; lia).
    assert (c / 64 < 4) by (apply N.div_lt_upper_bound; lia).
    repeat constructor; try lia; [apply N.div_lt_upper_bound; lia | apply IH; assumption].
Qed.

Lemma byte_recompose_1 a b : a < 256 -> b < 256 -> (a / 4) * 4 + ((a mod 4) * 16 + b / 16) / 16 = a.
Proof.
  intros Ha Hb.
  assert (b / 16 < 16) by (apply N.div_lt_upper_bound; lia).
  replace (((a mod 4) * 16 + b / 16) / 16) with (a mod 4).
  - pose proof (N.div_mod a 4 ltac:(lia)). lia.
  - symmetry. rewrite N.add_comm, N.div_add by lia. rewrite N.div_small by lia. reflexivity.
Qed.

Lemma byte_recompose_2 a b c : b < 256 -> c < 256 ->
  (((a mod 4) * 16 + b / 16) mod 16) * 16 + ((b mod 16) * 4 + c / 64) / 4 = b.
Proof.
  intros Hb Hc.
  assert (b / 16 < 16) by (apply N.div_lt_upper_bound; lia).
  assert (c / 64 < 4) by (apply N.div_lt_upper_bound; lia).
  replace (((a mod 4) * 16 + b / 16) mod 16) with (b / 16).
  2:{ symmetry. rewrite N.add_comm, N.mod_add by lia. apply N.mod_small. lia. }
  replace (((b mod 16) * 4 + c / 64) / 4) with (b mod 16).
  2:{ symmetry. rewrite N.add_comm, N.div_add by lia. rewrite N.div_small by lia. reflexivity. }
  pose proof (N.div_mod b 16 ltac:(lia)). lia.
Qed.

Lemma byte_recompose_3 b c : c < 256 -> (((b mod 16) * 4 + c / 64) mod 4) * 64 + c mod 64 = c.
Proof.
  intros Hc.
  assert (c / 64 < 4) by (apply N.div_lt_upper_bound; lia).
  replace (((b mod 16) * 4 + c / 64) mod 4) with (c / 64).
  2:{ symmetry. rewrite N.add_comm, N.mod_add by lia. apply N.mod_small. lia. }
  pose proof (N.div_mod c 64 ltac:(lia)). lia.
Qed.

Lemma decode_sextets l : Forall is_byte l -> b64_decode_vals (sextets l) = Some l.
Proof.
  revert l. fix IH 1. intros [|a [|b [|c r]]] H; cbn [sextets b64_decode_vals].
  - reflexivity.
  - inversion_clear H as [|? ? Ha _]. unfold is_byte in Ha. f_equal. f_equal.
    pose proof (byte_recompose_1 a 0 Ha ltac:(lia)) as E. rewrite N.div_0_l in E by lia.
    rewrite N.add_0_r in E. exact E.
  - inversion_clear H as [|? ? Ha H']. inversion_clear H' as [|? ? Hb _]. unfold is_byte in *.
    f_equal. f_equal; [apply byte_recompose_1; assumption|]. f_equal.
    pose proof (byte_recompose_2 a b 0 Hb ltac:(lia)) as E. rewrite N.div_0_l in E by lia.
    rewrite N.add_0_r in E. exact E.
  - inversion_clear H as [|? ? Ha H']. inversion_clear H' as [|? ? Hb H'']. inversion_clear H'' as [|? ? Hc Hr].
    unfold is_byte in *. rewrite IH by assumption.
    rewrite byte_recompose_1, byte_recompose_2, byte_recompose_3 by assumption. reflexivity.
Qed.

Theorem b64_decode_encode_bytes l :
  Forall is_byte l ->
  match b64_vals (b64_encode_bytes l) with
  | Some vs => b64_decode_vals vs
  | None => None
  end = Some l.
Proof.
  intros H. rewrite encode_is_map, b64_vals_chars by (apply sextets_small; assumption).
  apply decode_sextets. assumption.
Qed.

(* ---- lifted to strings ---- *)

Lemma bytes_of_string_bytes s : Forall is_byte (bytes_of_string s).
Proof.
  unfold bytes_of_string. induction s as [|a s IH]; cbn; constructor; [apply N_ascii_bounded|exact IH].
Qed.

Lemma string_of_bytes_of_string s : string_of_bytes (bytes_of_string s) = s.
Proof.
  unfold string_of_bytes, bytes_of_string. rewrite map_map.
  rewrite (map_ext _ (fun a => a)) by (intros; apply ascii_N_embedding).
  rewrite map_id. apply string_of_list_ascii_of_string.
Qed.

Lemma bytes_of_string_of_bytes l : Forall is_byte l -> bytes_of_string (string_of_bytes l) = l.
Proof.
  unfold string_of_bytes, bytes_of_string. intros H. rewrite list_ascii_of_string_of_list_ascii, map_map.
  induction H as [|n l Hn Hl IH]; cbn; [reflexivity|]. rewrite IH. f_equal. apply N_ascii_embedding. exact Hn.
Qed.

Lemma b64_char_byte n : is_byte (b64_char n).
Proof.
  unfold is_byte, b64_char.
  destruct (N.ltb_spec n 26); [lia|]. destruct (N.ltb_spec n 52); [lia|]. destruct (N.ltb_spec n 62); [lia|].
  destruct (n =? 62); lia.
Qed.

Theorem b64_decode_encode s : b64_decode (b64_encode s) = Some s.
Proof.
  unfold b64_decode, b64_encode.
  rewrite bytes_of_string_of_bytes.
  2:{ rewrite encode_is_map. apply Forall_forall. intros x Hx. apply in_map_iff in Hx.
      destruct Hx as (n & <- & _). apply b64_char_byte. }
  pose proof (b64_decode_encode_bytes (bytes_of_string s) (bytes_of_string_bytes s)) as H.
  destruct (b64_vals (b64_encode_bytes (bytes_of_string s))) as [vs|]; [|discriminate].
  rewrite H. f_equal. apply string_of_bytes_of_string.
Qed.

Corollary b64_encode_injective s t : b64_encode s = b64_encode t -> s = t.
Proof.
  intros E. pose proof (b64_decode_encode s) as Hs. rewrite E, b64_decode_encode in Hs. congruence.
Qed.

(* The decoder is lenient: distinct strings can decode to the same bytes (spare trailing bits,
   CR/LF).  This is why hash validation compares encoded strings, not decoded digests. *)
Example b64_decode_lenient :
  b64_decode "QQ" = b64_decode "QR" /\ b64_decode "QQ" = Some "A"%string /\
  b64_decode (String (ascii_of_N 10) "QQ") = Some "A"%string.
Proof. vm_compute. auto. Qed.
