(* go-multihash v0.0.14 Encode / Decode and go-varint v0.0.6 FromUvarint, over byte lists. *)
From Coq Require Import NArith Arith String Ascii List Bool Lia.
From Sidetree Require Import Base.Sha2 Base.Base64url.
Import ListNotations.
Open Scope N_scope.

(* varint.PutUvarint *)
Fixpoint uv_enc (fuel : nat) (n : N) : list N :=
  match fuel with
  | O => []
  | S f => if n <? 128 then [n] else (n mod 128 + 128) :: uv_enc f (n / 128)
  end.
Definition uvarint_encode (n : N) : list N := uv_enc 10 n.

(* varint.FromUvarint: at most 9 bytes, minimal encoding required *)
Fixpoint uv_dec (i : nat) (x s : N) (l : list N) : option (N * list N) :=
  match l with
  | [] => None
  | b :: r =>
      if orb (andb (Nat.eqb i 8) (128 <=? b)) (Nat.leb 9 i) then None
      else if b <? 128 then
             if andb (b =? 0) (0 <? s) then None
             else Some (N.lor x (N.shiftl b s), r)
           else uv_dec (S i) (N.lor x (N.shiftl (b - 128) s)) (s + 7) r
  end.
Definition uvarint_decode (l : list N) : option (N * list N) := uv_dec 0 0 0 l.

Definition mh_encode_bytes (code : N) (digest : list N) : list N :=
  uvarint_encode code ++ uvarint_encode (N.of_nat (length digest)) ++ digest.

(* multihash.Decode: (code, digest) *)
Definition mh_decode_bytes (buf : list N) : option (N * list N) :=
  if Nat.ltb (length buf) 2 then None else
  match uvarint_decode buf with
  | None => None
  | Some (code, r1) =>
      match uvarint_decode r1 with
      | None => None
      | Some (len, r2) =>
          if 2147483647 <? len then None
          else if N.of_nat (length r2) <? len then None
          else if negb (N.of_nat (length r2) =? len) then None     (* ErrInconsistentLen *)
          else Some (code, r2)
      end
  end.

Definition mh_encode (code : N) (digest : string) : string :=
  string_of_bytes (mh_encode_bytes code (bytes_of_string digest)).
Definition mh_decode (s : string) : option (N * string) :=
  match mh_decode_bytes (bytes_of_string s) with
  | Some (c, d) => Some (c, string_of_bytes d)
  | None => None
  end.

Lemma uvarint_small n : n < 128 -> uvarint_encode n = [n].
Proof. intros H. unfold uvarint_encode. cbn. destruct (N.ltb_spec n 128); [reflexivity|lia]. Qed.

Lemma uvarint_decode_small n r : n < 128 -> uvarint_decode (n :: r) = Some (n, r).
Proof.
  intros H. unfold uvarint_decode. cbn [uv_dec Nat.eqb Nat.leb andb orb].
  destruct (N.ltb_spec n 128); [|lia]. rewrite N.shiftl_0_r. cbn [N.lor].
  replace (andb (n =? 0) (0 <? 0)) with false by (rewrite N.ltb_irrefl, andb_false_r; reflexivity).
  reflexivity.
Qed.

(* Round trip for the shapes Sidetree uses: one-byte code, digest shorter than 128 bytes. *)
Theorem mh_decode_encode_bytes code d :
  code < 128 -> (0 < length d < 128)%nat ->
  mh_decode_bytes (mh_encode_bytes code d) = Some (code, d).
Proof.
  intros Hc [Hd0 Hd]. unfold mh_encode_bytes, mh_decode_bytes.
  assert (Hl : N.of_nat (length d) < 128) by lia.
  rewrite (uvarint_small code Hc), (uvarint_small _ Hl). cbn [app].
  replace (Nat.ltb (length (code :: N.of_nat (length d) :: d)) 2) with false.
  2:{ symmetry. apply Nat.ltb_ge. cbn [length]. lia. }
  rewrite uvarint_decode_small by assumption. rewrite uvarint_decode_small by assumption.
  destruct (N.ltb_spec 2147483647 (N.of_nat (length d))); [lia|].
  rewrite N.ltb_irrefl, N.eqb_refl. reflexivity.
Qed.

Theorem mh_decode_encode code d :
  code < 128 -> (0 < String.length d < 128)%nat -> mh_decode (mh_encode code d) = Some (code, d).
Proof.
  intros Hc Hd. unfold mh_decode, mh_encode.
  assert (Hlen : length (bytes_of_string d) = String.length d).
  { unfold bytes_of_string. rewrite map_length. clear. induction d; cbn; congruence. }
  rewrite bytes_of_string_of_bytes.
  - rewrite mh_decode_encode_bytes; [|assumption|rewrite Hlen; assumption].
    now rewrite string_of_bytes_of_string.
  - unfold mh_encode_bytes. rewrite (uvarint_small code Hc).
    rewrite uvarint_small by (rewrite Hlen; lia).
    repeat constructor; unfold is_byte; try lia. apply bytes_of_string_bytes.
Qed.

Example mh_vectors :
  mh_decode_bytes [18; 2; 7; 9] = Some (18, [7; 9]) /\
  mh_decode_bytes [18; 3; 7; 9] = None /\          (* length field larger than the digest *)
  mh_decode_bytes [18; 1; 7; 9] = None /\          (* trailing bytes: inconsistent length *)
  mh_decode_bytes [18] = None /\                   (* too short *)
  mh_decode_bytes [128; 0; 1; 5] = None.           (* non-minimal varint *)
Proof. vm_compute. auto 10. Qed.

Lemma uv_enc_bytes fuel : forall n, Forall is_byte (uv_enc fuel n).
Proof.
  induction fuel as [|f IH]; intros n; cbn; [constructor|].
  destruct (N.ltb_spec n 128).
  - repeat constructor. unfold is_byte. lia.
  - constructor; [|apply IH]. unfold is_byte. pose proof (N.mod_upper_bound n 128 ltac:(lia)). lia.
Qed.

Lemma mh_encode_bytes_bytes code d : Forall is_byte d -> Forall is_byte (mh_encode_bytes code d).
Proof.
  intros H. unfold mh_encode_bytes, uvarint_encode.
  apply Forall_app. split; [apply uv_enc_bytes|]. apply Forall_app. split; [apply uv_enc_bytes|exact H].
Qed.

(* ---- a decoded multihash code fits in 63 bits (at most nine varint octets) ---- *)

Lemma lor_lt_pow2 a b n : a < 2 ^ n -> b < 2 ^ n -> N.lor a b < 2 ^ n.
Proof.
  intros Ha Hb. destruct (N.eq_dec (N.lor a b) 0) as [E|NE]; [rewrite E; apply N.neq_0_lt_0, N.pow_nonzero; lia|].
  apply N.log2_lt_pow2; [lia|]. rewrite N.log2_lor.
  destruct (N.eq_dec a 0) as [->|Na]; destruct (N.eq_dec b 0) as [->|Nb].
  - cbn in NE. congruence.
  - rewrite N.max_r by (cbn; lia). apply N.log2_lt_pow2; lia.
  - rewrite N.max_l by (cbn; lia). apply N.log2_lt_pow2; lia.
  - apply N.max_lub_lt; apply N.log2_lt_pow2; lia.
Qed.

Lemma uv_dec_lt l : forall i x s v r,
  Forall (fun b => b < 256) l -> s = 7 * N.of_nat i -> x < 2 ^ s ->
  uv_dec i x s l = Some (v, r) -> v < 2 ^ 63.
Proof.
  induction l as [|b rest IH]; intros i x s v r F Hs Hx H; cbn [uv_dec] in H; [discriminate|].
  inversion F as [|? ? Hb Frest]; subst.
  destruct (orb (andb (Nat.eqb i 8) (128 <=? b)) (Nat.leb 9 i)) eqn:Ec; [discriminate|].
  apply orb_false_iff in Ec as [E1 E2]. apply Nat.leb_gt in E2.
  destruct (N.ltb_spec b 128) as [Lb|Lb].
  - destruct (andb (b =? 0) (0 <? 7 * N.of_nat i)); [discriminate|]. injection H as <- <-.
    apply N.lt_le_trans with (2 ^ (7 * N.of_nat i + 7)).
    + apply lor_lt_pow2.
      * eapply N.lt_le_trans; [exact Hx|]. apply N.pow_le_mono_r; lia.
      * rewrite N.shiftl_mul_pow2, N.pow_add_r. replace (2 ^ 7) with 128 by reflexivity.
        rewrite (N.mul_comm (2 ^ (7 * N.of_nat i)) 128). apply N.mul_lt_mono_pos_r; [apply N.neq_0_lt_0, N.pow_nonzero; lia|exact Lb].
    + apply N.pow_le_mono_r; lia.
  - assert (Hi : (i < 8)%nat).
    { destruct (Nat.eqb_spec i 8) as [->|]; [|lia]. cbn [andb] in E1. apply N.leb_gt in E1. lia. }
    eapply (IH (S i)); [exact Frest| |  |exact H].
    + lia.
    + replace (7 * N.of_nat (S i)) with (7 * N.of_nat i + 7) by lia.
      apply lor_lt_pow2.
      * eapply N.lt_le_trans; [exact Hx|]. apply N.pow_le_mono_r; lia.
      * rewrite N.shiftl_mul_pow2, N.pow_add_r. replace (2 ^ 7) with 128 by reflexivity.
        rewrite (N.mul_comm (2 ^ (7 * N.of_nat i)) 128). apply N.mul_lt_mono_pos_r; [apply N.neq_0_lt_0, N.pow_nonzero; lia|lia].
Qed.

Lemma mh_decode_bytes_code_lt buf c d : Forall (fun b => b < 256) buf -> mh_decode_bytes buf = Some (c, d) -> c < 2 ^ 63.
Proof.
  intros F. unfold mh_decode_bytes. destruct (Nat.ltb _ 2); [discriminate|].
  destruct (uvarint_decode buf) as [[code r1]|] eqn:E; [|discriminate].
  destruct (uvarint_decode r1) as [[len r2]|]; [|discriminate].
  destruct (_ <? len); [discriminate|]. destruct (_ <? len); [discriminate|]. destruct (negb _); [discriminate|].
  intros H. injection H as <- _. unfold uvarint_decode in E.
  eapply (uv_dec_lt buf 0%nat 0 0); eauto; cbn; lia.
Qed.

Lemma mh_decode_code_lt s c d : mh_decode s = Some (c, d) -> c < 2 ^ 63.
Proof.
  unfold mh_decode. destruct (mh_decode_bytes (bytes_of_string s)) as [[c' d']|] eqn:E; [|discriminate].
  intros H. injection H as <- _. eapply mh_decode_bytes_code_lt; [|exact E].
  eapply Forall_impl; [|apply bytes_of_string_bytes]. intros b Hb. exact Hb.
Qed.
