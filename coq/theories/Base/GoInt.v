(* Go fixed-width integer conversions, written out over Z. *)
From Coq Require Import ZArith Lia.
Open Scope Z_scope.

Definition two63 : Z := 9223372036854775808.
Definition two64 : Z := 18446744073709551616.

(* uint64(x): reduce modulo 2^64 *)
Definition to_u64 (x : Z) : Z := x mod two64.

(* int64(x): two's complement reinterpretation *)
Definition to_i64 (x : Z) : Z :=
  let m := x mod two64 in if m <? two63 then m else m - two64.

(* int64 addition / subtraction as Go performs them (wrap-around) *)
Definition go_add (a b : Z) : Z := to_i64 (a + b).
Definition go_sub (a b : Z) : Z := to_i64 (a - b).

Definition in_i64 (x : Z) : Prop := - two63 <= x < two63.
Definition in_u64 (x : Z) : Prop := 0 <= x < two64.

Lemma to_i64_id x : in_i64 x -> to_i64 x = x.
Proof.
  unfold in_i64, to_i64, two63, two64. intros H.
  destruct (Z_lt_le_dec x 0) as [Hn|Hp].
  - assert (E : x mod 18446744073709551616 = x + 18446744073709551616).
    { symmetry. apply Z.mod_unique with (q := -1); lia. }
    rewrite E. destruct (Z.ltb_spec (x + 18446744073709551616) 9223372036854775808); lia.
  - rewrite Z.mod_small by lia.
    destruct (Z.ltb_spec x 9223372036854775808); lia.
Qed.

Lemma to_u64_id x : in_u64 x -> to_u64 x = x.
Proof. unfold in_u64, to_u64. intros. apply Z.mod_small. assumption. Qed.

Lemma to_i64_range x : in_i64 (to_i64 x).
Proof.
  unfold in_i64, to_i64, two63, two64.
  pose proof (Z.mod_pos_bound x 18446744073709551616 ltac:(lia)) as H.
  destruct (Z.ltb_spec (x mod 18446744073709551616) 9223372036854775808); lia.
Qed.

Lemma go_add_exact a b : in_i64 (a + b) -> go_add a b = a + b.
Proof. intros. unfold go_add. now apply to_i64_id. Qed.
