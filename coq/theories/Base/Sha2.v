(* SHA-256 and SHA-512 (FIPS 180-4) as executable Gallina over N.  Used to run the model on
   real inputs; theorems elsewhere are generic in the hash function. *)
From Coq Require Import NArith String Ascii List.
Import ListNotations.
Open Scope N_scope.

Record sha_params := {
  wbits : N;            (* word size: 32 or 64 *)
  rounds : nat;         (* 64 or 80 *)
  kconst : list N;
  hinit : list N;
  bs0 : N * N * N;      (* big sigma 0 rotations *)
  bs1 : N * N * N;
  ss0 : N * N * N;      (* small sigma 0: rotr, rotr, shr *)
  ss1 : N * N * N
}.

Section Sha.
  Variable P : sha_params.
  Let w := wbits P.
  Let modw := N.shiftl 1 w.
  Definition trunc (x : N) : N := N.land x (modw - 1).
  Definition rotr (x n : N) : N := N.lor (N.shiftr x n) (trunc (N.shiftl x (w - n))).
  Definition addw (a b : N) : N := trunc (a + b).
  Definition bsig (r : N * N * N) (x : N) : N :=
    let '(a, b, c) := r in N.lxor (N.lxor (rotr x a) (rotr x b)) (rotr x c).
  Definition ssig (r : N * N * N) (x : N) : N :=
    let '(a, b, c) := r in N.lxor (N.lxor (rotr x a) (rotr x b)) (N.shiftr x c).
  Definition ch (x y z : N) : N := N.lxor (N.land x y) (N.land (N.lxor x (modw - 1)) z).
  Definition maj (x y z : N) : N := N.lxor (N.lxor (N.land x y) (N.land x z)) (N.land y z).

  (* message schedule: ws holds w_{t-1} :: w_{t-2} :: ... (most recent first) *)
  Fixpoint schedule (n : nat) (ws : list N) : list N :=
    match n with
    | O => ws
    | S n' =>
        let g i := nth i ws 0 in
        let nw := addw (addw (ssig (ss1 P) (g 1%nat)) (g 6%nat)) (addw (ssig (ss0 P) (g 14%nat)) (g 15%nat)) in
        schedule n' (nw :: ws)
    end.

  Definition round (st : list N) (k wt : N) : list N :=
    match st with
    | [a; b; c; d; e; f; g; h] =>
        let t1 := addw (addw (addw h (bsig (bs1 P) e)) (addw (ch e f g) k)) wt in
        let t2 := addw (bsig (bs0 P) a) (maj a b c) in
        [addw t1 t2; a; b; c; addw d t1; e; f; g]
    | _ => st
    end.

  Fixpoint rounds_go (st : list N) (ks ws : list N) : list N :=
    match ks, ws with
    | k :: ks', wt :: ws' => rounds_go (round st k wt) ks' ws'
    | _, _ => st
    end.

  Definition compress (st : list N) (block : list N) : list N :=
    let ws := rev (schedule (rounds P - 16) (rev block)) in
    let st' := rounds_go st (kconst P) ws in
    map (fun p => addw (fst p) (snd p)) (combine st st').

  (* bytes -> big-endian words *)
  Fixpoint be_word (n : nat) (acc : N) (bs : list N) : N * list N :=
    match n with
    | O => (acc, bs)
    | S n' => match bs with
              | b :: r => be_word n' (acc * 256 + b) r
              | [] => be_word n' (acc * 256) []
              end
    end.

  Definition wbytes : nat := N.to_nat (w / 8).

  Fixpoint words (fuel : nat) (bs : list N) : list N :=
    match fuel with
    | O => []
    | S f => match bs with
             | [] => []
             | _ => let '(x, r) := be_word wbytes 0 bs in x :: words f r
             end
    end.

  Fixpoint blocks (fuel : nat) (st : list N) (ws : list N) : list N :=
    match fuel with
    | O => st
    | S f => match ws with
             | [] => st
             | _ => blocks f (compress st (firstn 16 ws)) (skipn 16 ws)
             end
    end.

  Fixpoint be_bytes (n : nat) (x : N) : list N :=
    match n with
    | O => []
    | S n' => be_bytes n' (x / 256) ++ [x mod 256]
    end.

  Definition pad (msg : list N) : list N :=
    let len := N.of_nat (length msg) in
    let blockbytes := 16 * (w / 8) in
    let lenbytes := 2 * (w / 8) in
    let used := (len + 1 + lenbytes) mod blockbytes in
    let zeros := if used =? 0 then 0 else blockbytes - used in
    msg ++ [128] ++ repeat 0 (N.to_nat zeros) ++ be_bytes (N.to_nat lenbytes) (len * 8).

  Definition sha_bytes (msg : list N) : list N :=
    let p := pad msg in
    let n := length p in
    let st := blocks n (hinit P) (words n p) in
    flat_map (be_bytes wbytes) st.
End Sha.

Definition sha256_params : sha_params :=
  {| wbits := 32; rounds := 64;
     kconst := [1116352408; 1899447441; 3049323471; 3921009573; 961987163; 1508970993; 2453635748; 2870763221; 3624381080; 310598401; 607225278; 1426881987; 1925078388; 2162078206; 2614888103; 3248222580; 3835390401; 4022224774; 264347078; 604807628; 770255983; 1249150122; 1555081692; 1996064986; 2554220882; 2821834349; 2952996808; 3210313671; 3336571891; 3584528711; 113926993; 338241895; 666307205; 773529912; 1294757372; 1396182291; 1695183700; 1986661051; 2177026350; 2456956037; 2730485921; 2820302411; 3259730800; 3345764771; 3516065817; 3600352804; 4094571909; 275423344; 430227734; 506948616; 659060556; 883997877; 958139571; 1322822218; 1537002063; 1747873779; 1955562222; 2024104815; 2227730452; 2361852424; 2428436474; 2756734187; 3204031479; 3329325298];
     hinit := [1779033703; 3144134277; 1013904242; 2773480762; 1359893119; 2600822924; 528734635; 1541459225];
     bs0 := (2, 13, 22); bs1 := (6, 11, 25); ss0 := (7, 18, 3); ss1 := (17, 19, 10) |}.

Definition sha512_params : sha_params :=
  {| wbits := 64; rounds := 80;
     kconst := [4794697086780616226; 8158064640168781261; 13096744586834688815; 16840607885511220156; 4131703408338449720; 6480981068601479193; 10538285296894168987; 12329834152419229976; 15566598209576043074; 1334009975649890238; 2608012711638119052; 6128411473006802146; 8268148722764581231; 9286055187155687089; 11230858885718282805; 13951009754708518548; 16472876342353939154; 17275323862435702243; 1135362057144423861; 2597628984639134821; 3308224258029322869; 5365058923640841347; 6679025012923562964; 8573033837759648693; 10970295158949994411; 12119686244451234320; 12683024718118986047; 13788192230050041572; 14330467153632333762; 15395433587784984357; 489312712824947311; 1452737877330783856; 2861767655752347644; 3322285676063803686; 5560940570517711597; 5996557281743188959; 7280758554555802590; 8532644243296465576; 9350256976987008742; 10552545826968843579; 11727347734174303076; 12113106623233404929; 14000437183269869457; 14369950271660146224; 15101387698204529176; 15463397548674623760; 17586052441742319658; 1182934255886127544; 1847814050463011016; 2177327727835720531; 2830643537854262169; 3796741975233480872; 4115178125766777443; 5681478168544905931; 6601373596472566643; 7507060721942968483; 8399075790359081724; 8693463985226723168; 9568029438360202098; 10144078919501101548; 10430055236837252648; 11840083180663258601; 13761210420658862357; 14299343276471374635; 14566680578165727644; 15097957966210449927; 16922976911328602910; 17689382322260857208; 500013540394364858; 748580250866718886; 1242879168328830382; 1977374033974150939; 2944078676154940804; 3659926193048069267; 4368137639120453308; 4836135668995329356; 5532061633213252278; 6448918945643986474; 6902733635092675308; 7801388544844847127];
     hinit := [7640891576956012808; 13503953896175478587; 4354685564936845355; 11912009170470909681; 5840696475078001361; 11170449401992604703; 2270897969802886507; 6620516959819538809];
     bs0 := (28, 34, 39); bs1 := (14, 18, 41); ss0 := (1, 8, 7); ss1 := (19, 61, 6) |}.

Definition bytes_of_string (s : string) : list N := map N_of_ascii (list_ascii_of_string s).
Definition string_of_bytes (l : list N) : string := string_of_list_ascii (map ascii_of_N l).

Definition sha256 (s : string) : string := string_of_bytes (sha_bytes sha256_params (bytes_of_string s)).
Definition sha512 (s : string) : string := string_of_bytes (sha_bytes sha512_params (bytes_of_string s)).

(* ---- output length ---- *)
From Coq Require Import Lia.

Section ShaLen.
  Variable P : sha_params.

  Lemma round_len8 st k wt : length st = 8%nat -> length (round P st k wt) = 8%nat.
  Proof.
    intros H. destruct st as [|a [|b [|c [|d [|e [|f [|g [|h [|x r]]]]]]]]]; cbn in H; try discriminate.
    reflexivity.
  Qed.

  Lemma rounds_go_len8 ks : forall st ws, length st = 8%nat -> length (rounds_go P st ks ws) = 8%nat.
  Proof.
    induction ks as [|k ks IH]; intros st ws H; cbn; [exact H|].
    destruct ws as [|wt ws]; [exact H|]. apply IH. apply round_len8. exact H.
  Qed.

  Lemma compress_len8 st block : length st = 8%nat -> length (compress P st block) = 8%nat.
  Proof.
    intros H. unfold compress. rewrite map_length, combine_length, rounds_go_len8 by exact H.
    rewrite H. reflexivity.
  Qed.

  Lemma blocks_len8 fuel : forall st ws, length st = 8%nat -> length (blocks P fuel st ws) = 8%nat.
  Proof.
    induction fuel as [|f IH]; intros st ws H; cbn; [exact H|].
    destruct ws; [exact H|]. apply IH. apply compress_len8. exact H.
  Qed.

  Lemma be_bytes_len n : forall x, length (be_bytes n x) = n.
  Proof. induction n as [|n IH]; intros x; cbn; [reflexivity|]. rewrite app_length, IH. cbn. lia. Qed.

  Lemma flat_map_const_len {A} (f : A -> list N) k l :
    (forall x, length (f x) = k) -> length (flat_map f l) = (length l * k)%nat.
  Proof. intros Hf. induction l as [|x l IH]; cbn; [reflexivity|]. rewrite app_length, Hf, IH. lia. Qed.

  Lemma sha_bytes_len msg :
    length (hinit P) = 8%nat -> length (sha_bytes P msg) = (8 * wbytes P)%nat.
  Proof.
    intros H. unfold sha_bytes.
    rewrite (flat_map_const_len _ (wbytes P)) by (intros; apply be_bytes_len).
    rewrite blocks_len8 by exact H. reflexivity.
  Qed.
End ShaLen.

Lemma string_of_bytes_length l : String.length (string_of_bytes l) = length l.
Proof. unfold string_of_bytes. induction l as [|x l IH]; cbn; congruence. Qed.

Lemma sha256_length s : String.length (sha256 s) = 32%nat.
Proof. unfold sha256. rewrite string_of_bytes_length, sha_bytes_len; reflexivity. Qed.

Lemma sha512_length s : String.length (sha512 s) = 64%nat.
Proof. unfold sha512. rewrite string_of_bytes_length, sha_bytes_len; reflexivity. Qed.
