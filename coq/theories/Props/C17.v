(* C17 - Long-form DIDs resolve offline, only in their own namespace, to what was created. *)
From Coq Require Import ZArith NArith String List Bool.
From Sidetree Require Import Base.Base64url Json.Json Json.Jcs Sidetree.Protocol Sidetree.JsonPatch Sidetree.Composer Sidetree.Parser Sidetree.LongForm.
Import ListNotations.
Open Scope string_scope.

(* whatever resolves: begins with "<namespace>:", ends with ":<suffix>:<initial state>", the
   initial state is canonical, parses as a create request with exactly that suffix, and the
   result is the create response for it *)
Theorem C17_resolve_sound : forall uri_ok url_norm ns did r,
  resolve uri_ok url_norm ns did = Some r ->
  is_prefix (ns ++ ":") did = true /\
  exists short state bytes sfx,
    split_last_colon did = Some (short, state) /\ parse_initial_state state = Some bytes /\
    get_suffix short = Some sfx /\
    (exists ty id origin, parse longform_protocol uri_ok url_norm (fun _ => true) (fun _ _ => true) ns bytes = Some (ty, sfx, id, origin)) /\
    create_response uri_ok url_norm ns sfx state bytes = Some r.
Proof. exact resolve_sound. Qed.
Print Assumptions C17_resolve_sound.

(* DIDs of another method - even one whose name shares a prefix - are never resolved *)
Theorem C17_namespace_isolation : forall uri_ok url_norm ns did,
  is_prefix (ns ++ ":") did = false -> resolve uri_ok url_norm ns did = None.
Proof. exact namespace_isolation. Qed.
Print Assumptions C17_namespace_isolation.

(* the initial state is the exact unpadded base64url of the canonical create request (whose
   type member is absent or "create") *)
Theorem C17_initial_state_canonical : forall state bytes,
  parse_initial_state state = Some bytes ->
  exists ty sd d expected, jcs (img_create_request ty sd d) = Some expected /\ state = b64_encode expected /\
                           jcs (img_create_request "create" sd d) = Some bytes /\ (ty = "" \/ ty = "create").
Proof. exact initial_state_canonical. Qed.
Print Assumptions C17_initial_state_canonical.

Example C17_nonvacuous :
  resolve (fun _ => true) (fun s => Some s) "did:ion" "did:ion:EiAabc" = None /\
  resolve (fun _ => true) (fun s => Some s) "did:ion" "did:ionx:EiAabc:eyJ9" = None /\
  is_prefix ("did:ion" ++ ":") "did:ionx:abc" = false.
Proof. vm_compute. repeat split; reflexivity. Qed.
