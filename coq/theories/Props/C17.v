(* C17 - Long-form DIDs resolve offline, only in their own namespace, to what was created. *)
From Coq Require Import ZArith NArith String Ascii List Bool.
From Sidetree Require Import Base.Base64url Json.Json Json.Jcs Sidetree.Protocol Sidetree.JsonPatch Sidetree.Composer Sidetree.Parser Sidetree.LongForm
     Json.JcsProps Json.JcsRoundTrip Sidetree.JsonPatch Sidetree.Composer Sidetree.Validator Sidetree.Hashing Sidetree.JequivDecode Sidetree.ClientCreate Sidetree.LongFormComplete Sidetree.ClientSimple.
Import ListNotations.
Open Scope string_scope.

(* whatever resolves: begins with "<namespace>:", ends with ":<suffix>:<initial state>", the
   initial state is canonical, parses as a create request with exactly that suffix, and the
   result is the create response for it *)
Theorem C17_resolve_sound : forall uri_ok url_norm ns did r,
  resolve uri_ok url_norm ns did = Some r ->
  is_prefix (ns ++ ":") did = true /\
  exists short state bytes sfx,
    split_last_colon did = Some (short, state) /\ parse_initial_state state = Some bytes /\
    get_suffix short = Some sfx /\
    (exists ty id origin, parse longform_protocol uri_ok url_norm (fun _ => true) (fun _ _ => true) ns bytes = Some (ty, sfx, id, origin)) /\
    create_response uri_ok url_norm ns sfx state bytes = Some r.
Proof. exact resolve_sound. Qed.
Print Assumptions C17_resolve_sound.

(* DIDs of another method - even one whose name shares a prefix - are never resolved *)
Theorem C17_namespace_isolation : forall uri_ok url_norm ns did,
  is_prefix (ns ++ ":") did = false -> resolve uri_ok url_norm ns did = None.
Proof. exact namespace_isolation. Qed.
Print Assumptions C17_namespace_isolation.

(* the initial state is the exact unpadded base64url of the canonical create request (whose
   type member is absent or "create") *)
Theorem C17_initial_state_canonical : forall state bytes,
  parse_initial_state state = Some bytes ->
  exists ty sd d expected, jcs (img_create_request ty sd d) = Some expected /\ state = b64_encode expected /\
                           jcs (img_create_request "create" sd d) = Some bytes /\ (ty = "" \/ ty = "create").
Proof. exact initial_state_canonical. Qed.
Print Assumptions C17_initial_state_canonical.

(* completeness: the long-form DID made of namespace, suffix and base64url of a create request
   built by the create builder resolves - to exactly the create response of that request
   (the same request always gives the same DID: build_create is a function) *)
Theorem C17_built_did_resolves : forall uri_ok url_norm i bytes sd d ns sfx,
  build_create i = Some (bytes, sd, d) -> ci_code i = 18%N ->
  calc_mh (img_suffix_data sd) 18 = Some sfx ->
  (1 <= count_char ":"%char ns)%nat ->
  (Z.of_nat (String.length bytes) <= P_MaxOperationSize longform_protocol)%Z ->
  (Z.of_nat (String.length (ci_recovery_c i)) <= P_MaxOperationHashLength longform_protocol)%Z ->
  (Z.of_nat (String.length (ci_update_c i)) <= P_MaxOperationHashLength longform_protocol)%Z ->
  (Z.of_nat (String.length (sd_delta_hash sd)) <= P_MaxOperationHashLength longform_protocol)%Z ->
  (forall c, jcs (img_delta d) = Some c -> (Z.of_nat (String.length c) <= P_MaxDeltaSize longform_protocol)%Z) ->
  Forall is_obj (ci_patches i) -> Forall wfnum (ci_patches i) -> wfnum (ci_origin i) ->
  patches_valid longform_protocol uri_ok url_norm (ci_patches i) ->
  resolve uri_ok url_norm ns (ns ++ ":" ++ sfx ++ ":" ++ b64_encode bytes) =
  create_response uri_ok url_norm ns sfx (b64_encode bytes) bytes.
Proof. exact built_longform_did_resolves_simple. Qed.
Print Assumptions C17_built_did_resolves.

Example C17_nonvacuous :
  resolve (fun _ => true) (fun s => Some s) "did:ion" "did:ion:EiAabc" = None /\
  resolve (fun _ => true) (fun s => Some s) "did:ion" "did:ionx:EiAabc:eyJ9" = None /\
  is_prefix ("did:ion" ++ ":") "did:ionx:abc" = false.
Proof. vm_compute. repeat split; reflexivity. Qed.
