(* C03 - DIDs are self-certifying: suffix = hash(suffix data), delta bound by hash. *)
From Coq Require Import ZArith NArith String List Bool.
From Sidetree Require Import Base.Sha2 Json.Json Json.Jcs Json.JcsProps Json.JcsRoundTrip Sidetree.Protocol Sidetree.Hashing Sidetree.Parser Sidetree.Binding Sidetree.JequivDecode Sidetree.ValidatorJequiv Sidetree.Respell Sidetree.RespellNum Json.Parse.
Import ListNotations.
Open Scope string_scope.

(* For every accepted create request: the suffix is the model multihash of the decoded suffix
   data under the first configured algorithm; outside batch mode the delta validates against
   the recorded delta hash. *)
Theorem C03_create_suffix : forall cfg u n o m batch p,
  parse_create cfg u n o m batch = Some p ->
  exists sd a rest, p_suffix_data p = Some sd /\ algs cfg = a :: rest /\
    calc_mh (img_suffix_data sd) a = Some (p_suffix p) /\
    (batch = false -> valid_mh (img_delta_opt (p_delta p)) (sd_delta_hash sd) = true).
Proof. exact create_suffix. Qed.
Print Assumptions C03_create_suffix.

(* the DID is the namespace, a colon and that suffix *)
Theorem C03_did_is_namespaced_suffix : forall cfg u n o t ns bytes ty sfx id origin,
  parse cfg u n o t ns bytes = Some (ty, sfx, id, origin) -> id = ns ++ ":" ++ sfx.
Proof. exact parse_reports_id. Qed.
Print Assumptions C03_did_is_namespaced_suffix.

(* "changing any part of the suffix data changes the DID or causes rejection": two accepted
   create requests with the same suffix carry the same suffix data (as a JSON value), unless
   their canonical bytes are an explicit SHA-2 collision (exhibited). *)
Theorem C03_same_did_same_suffix_data : forall cfg u n o m1 b1 p1 m2 b2 p2,
  parse_create cfg u n o m1 b1 = Some p1 -> parse_create cfg u n o m2 b2 = Some p2 -> p_suffix p1 = p_suffix p2 ->
  exists sd1 sd2, p_suffix_data p1 = Some sd1 /\ p_suffix_data p2 = Some sd2 /\
    (jequiv (img_suffix_data sd1) (img_suffix_data sd2) \/ exists code, collision code (img_suffix_data sd1) (img_suffix_data sd2)).
Proof. exact same_suffix_same_suffix_data. Qed.
Print Assumptions C03_same_did_same_suffix_data.

(* ... and outside batch mode the recorded delta hash binds the delta *)
Theorem C03_same_delta_hash_same_delta : forall cfg u n o m1 p1 sd1 m2 p2 sd2,
  parse_create cfg u n o m1 false = Some p1 -> parse_create cfg u n o m2 false = Some p2 ->
  p_suffix_data p1 = Some sd1 -> p_suffix_data p2 = Some sd2 -> sd_delta_hash sd1 = sd_delta_hash sd2 ->
  jequiv (img_delta_opt (p_delta p1)) (img_delta_opt (p_delta p2)) \/
  exists code, collision code (img_delta_opt (p_delta p1)) (img_delta_opt (p_delta p2)).
Proof. exact same_delta_hash_same_delta. Qed.
Print Assumptions C03_same_delta_hash_same_delta.

(* equal model multihashes: equal values or a collision (the general binding lemma) *)
Theorem C03_multihash_binds : forall v w a s, calc_mh v a = Some s -> calc_mh w a = Some s -> wfnum v -> wfnum w ->
  jequiv v w \/ exists code, collision code v w.
Proof. exact calc_mh_binds. Qed.
Print Assumptions C03_multihash_binds.

(* "The same request denotes the same DID whatever its JSON member order": two spellings of one
   create request that differ in member order at any depth, both within the size limit, get
   the same verdict and, when accepted, the same type, suffix and DID (and an equivalent anchor
   origin).  Side conditions: canonical number tokens (wfnum), no object with a name twice (ndk),
   no two names equal up to ASCII case at the three levels decoded into structs (struct_levels),
   an anchor origin validator that cannot see member order.  Whitespace and escape spellings are
   the JSON parser's business: decided by correspondence (respelled variants). *)
Theorem C03_same_request_same_did : forall cfg u n o t,
  (forall a b, jequiv a b -> o a = o b) ->
  forall ns b b' m m',
  (Z.of_nat (String.length b) <= P_MaxOperationSize cfg)%Z ->
  (Z.of_nat (String.length b') <= P_MaxOperationSize cfg)%Z ->
  top_object b = Some m -> top_object b' = Some m' ->
  jequiv (JObj m) (JObj m') -> wfnum (JObj m) -> ndk (JObj m) -> struct_levels m ->
  dec_string (field "type" m) = Some "create" ->
  match parse cfg u n o t ns b, parse cfg u n o t ns b' with
  | Some (ty, sfx, id, og), Some (ty', sfx', id', og') => ty = ty' /\ sfx = sfx' /\ id = id' /\ jequiv og og'
  | None, None => True
  | _, _ => False
  end.
Proof. exact same_request_same_did. Qed.
Print Assumptions C03_same_request_same_did.

(* ... and whatever their number spellings: the parser reads numbers (anchor origin, patch values)
   through the ES6 normalisation, so two requests whose number-normalised forms differ in member
   order only - 1 / 1.0 / 1e0, -0 / 0, any member order - get the same verdict, suffix and DID.
   (norm_members = normalise_numbers on the members of the request object.) *)
Theorem C03_same_request_same_did_any_number_spelling : forall cfg u n o t,
  (forall a b, jequiv a b -> o a = o b) ->
  forall ns b b' m m' mn mn',
  (Z.of_nat (String.length b) <= P_MaxOperationSize cfg)%Z ->
  (Z.of_nat (String.length b') <= P_MaxOperationSize cfg)%Z ->
  top_object b = Some m -> top_object b' = Some m' ->
  norm_members m = Some mn -> norm_members m' = Some mn' ->
  jequiv (JObj mn) (JObj mn') -> ndk (JObj mn) -> struct_levels mn ->
  dec_string (field "type" m) = Some "create" ->
  match parse cfg u n o t ns b, parse cfg u n o t ns b' with
  | Some (ty, sfx, id, og), Some (ty', sfx', id', og') => ty = ty' /\ sfx = sfx' /\ id = id' /\ jequiv og og'
  | None, None => True
  | _, _ => False
  end.
Proof. exact same_request_same_did_spelling. Qed.
Print Assumptions C03_same_request_same_did_any_number_spelling.

(* the same on decoded requests, batch mode included, with suffix data and delta related *)
Theorem C03_parse_create_member_order : forall cfg u n o,
  (forall a b, jequiv a b -> o a = o b) ->
  forall m m' batch,
  jequiv (JObj m) (JObj m') -> wfnum (JObj m) -> ndk (JObj m) -> struct_levels m ->
  match parse_create cfg u n o m batch, parse_create cfg u n o m' batch with
  | Some p, Some p' => parsed_rel p p'
  | None, None => True
  | _, _ => False
  end.
Proof. exact parse_create_member_order. Qed.
Print Assumptions C03_parse_create_member_order.

(* The side condition on names equal up to case cannot be dropped: with "recoveryCommitment" and
   "RecoveryCommitment" in the suffix data, the two member orders are both accepted - with
   different suffixes.  Replayed on the implementation the two requests give two DIDs: the
   listed finding of C03 (known_findings.json, case-variant member names). *)
Theorem C03_member_order_with_case_variant_names_refuted :
  exists m m', jequiv (JObj m) (JObj m') /\ wfnum (JObj m) /\ ndk (JObj m) /\
    match parse_create ex_cfg (fun _ => true) (fun s => Some s) (fun _ => true) m true,
          parse_create ex_cfg (fun _ => true) (fun s => Some s) (fun _ => true) m' true with
    | Some p, Some p' => p_suffix p <> p_suffix p'
    | _, _ => False
    end.
Proof. exact member_order_matters_refuted. Qed.
Print Assumptions C03_member_order_with_case_variant_names_refuted.
