(* C03 - DIDs are self-certifying: suffix = hash(suffix data), delta bound by hash. *)
From Coq Require Import ZArith NArith String List Bool.
From Sidetree Require Import Json.Json Json.Jcs Sidetree.Protocol Sidetree.Hashing Sidetree.Parser.
Import ListNotations.
Open Scope string_scope.

(* For every accepted create request: the suffix is the model multihash of the decoded suffix
   data under the first configured algorithm; outside batch mode the delta validates against
   the recorded delta hash. *)
Theorem C03_create_suffix : forall cfg u n o m batch p,
  parse_create cfg u n o m batch = Some p ->
  exists sd a rest, p_suffix_data p = Some sd /\ algs cfg = a :: rest /\
    calc_mh (img_suffix_data sd) a = Some (p_suffix p) /\
    (batch = false -> valid_mh (img_delta_opt (p_delta p)) (sd_delta_hash sd) = true).
Proof. exact create_suffix. Qed.
Print Assumptions C03_create_suffix.

(* the DID is the namespace, a colon and that suffix *)
Theorem C03_did_is_namespaced_suffix : forall cfg u n o t ns bytes ty sfx id origin,
  parse cfg u n o t ns bytes = Some (ty, sfx, id, origin) -> id = ns ++ ":" ++ sfx.
Proof. exact parse_reports_id. Qed.
Print Assumptions C03_did_is_namespaced_suffix.
