(* C02 - No state change without a valid signature by the revealed key. *)
From Coq Require Import ZArith Bool List String.
From Sidetree Require Import Json.Json Sidetree.Protocol Sidetree.Composer Sidetree.Hashing Sidetree.Parser Sidetree.Applier Sidetree.Resolve Sidetree.AuthBytes.
Import ListNotations.

(* Every accepted operation passed: batch parse (which contains reveal = multihash(JCS(key)),
   the protected-header rules and, for deactivate, signed suffix = suffix), signed-data parse
   and JWS verification under the key carried in the signed data; an update in addition the
   delta-hash and delta-validity checks.  Case analysis over every path of the mirror: a check
   skipped on one path would make this theorem unprovable. *)
Theorem C02_accept_implies_authorised : forall cfg compose a rm rm',
  apply cfg compose a rm = Some rm' ->
  match a_type a with
  | TUpdate => v_parse_ok (a_view a) = true /\ v_signed_ok (a_view a) = true /\ v_sig_ok (a_view a) = true
               /\ v_delta_hash_ok (a_view a) = true /\ v_delta_valid (a_view a) = true
  | TRecover => v_parse_ok (a_view a) = true /\ v_signed_ok (a_view a) = true /\ v_sig_ok (a_view a) = true
  | TDeactivate => v_parse_ok (a_view a) = true /\ v_signed_ok (a_view a) = true /\ v_sig_ok (a_view a) = true
                   /\ v_suffix_ok (a_view a) = true
  | TCreate => v_parse_ok (a_view a) = true
  | TOther => False
  end.
Proof. exact accept_implies_authorised. Qed.
Print Assumptions C02_accept_implies_authorised.

(* A create or recover whose delta is not hash-bound and valid installs the empty document and
   no update commitment: content chosen without the key is never installed. *)
Theorem C02_doc_from_delta_needs_binding : forall cfg compose a rm rm',
  apply cfg compose a rm = Some rm' ->
  (a_type a = TCreate \/ a_type a = TRecover) ->
  delta_usable (a_view a) = false ->
  rm_doc rm' = Some [] /\ rm_update_c rm' = ""%string.
Proof. exact doc_from_delta_needs_binding. Qed.
Print Assumptions C02_doc_from_delta_needs_binding.

(* Contrapositive form used by the harness oracle: an unauthorised operation changes nothing. *)
Theorem C02_unauthorised_changes_nothing : forall cfg compose a rm,
  (a_type a = TUpdate \/ a_type a = TRecover \/ a_type a = TDeactivate) ->
  (v_parse_ok (a_view a) = false \/ v_signed_ok (a_view a) = false \/ v_sig_ok (a_view a) = false) ->
  step cfg compose rm a = rm.
Proof. exact unauthorised_changes_nothing. Qed.
Print Assumptions C02_unauthorised_changes_nothing.

(* The same on the request bytes (the view being the one the parser mirror derives from them): an
   update / recover / deactivate that changes the state carries signed data that parses under
   the protocol's rules, whose key hashes to the request's reveal value, and was verified under
   that key (the primitive verdict is the oracle sig_ok); an update's signed delta hash is the
   hash of its valid delta; the commitments installed are the ones in the signed data / delta. *)
Theorem C02_update_bytes_authorised : forall cfg u n bytes sig_ok t num ver canon equiv rm rm',
  apply_bytes cfg u n TUpdate bytes sig_ok t num ver canon equiv rm = Some rm' ->
  sig_ok = true /\
  exists m p su,
    request_object bytes = Some m /\
    parse_update cfg u n always2 m true = Some p /\
    parse_signed_update cfg (p_signed p) = Some su /\
    key_matches_reveal (su_key su) (p_reveal p) = true /\
    valid_mh (img_delta_opt (p_delta p)) (su_delta_hash su) = true /\
    validate_delta cfg u n (p_delta p) = true /\
    rm_update_c rm' = delta_commitment (p_delta p).
Proof. exact update_bytes_authorised. Qed.
Print Assumptions C02_update_bytes_authorised.

Theorem C02_recover_bytes_authorised : forall cfg u n bytes sig_ok t num ver canon equiv rm rm',
  apply_bytes cfg u n TRecover bytes sig_ok t num ver canon equiv rm = Some rm' ->
  sig_ok = true /\
  exists m p sr,
    request_object bytes = Some m /\
    parse_recover cfg u n always always2 m true = Some p /\
    parse_signed_recover cfg (p_signed p) = Some sr /\
    key_matches_reveal (sr_key sr) (p_reveal p) = true /\
    rm_recovery_c rm' = sr_recovery_c sr.
Proof. exact recover_bytes_authorised. Qed.
Print Assumptions C02_recover_bytes_authorised.

Theorem C02_deactivate_bytes_authorised : forall cfg u n bytes sig_ok t num ver canon equiv rm rm',
  apply_bytes cfg u n TDeactivate bytes sig_ok t num ver canon equiv rm = Some rm' ->
  sig_ok = true /\
  exists m p sx,
    request_object bytes = Some m /\
    parse_deactivate cfg always2 m true = Some p /\
    parse_signed_deactivate cfg (p_signed p) = Some sx /\
    key_matches_reveal (sx_key sx) (p_reveal p) = true /\
    sx_suffix sx = p_suffix p /\ rm_deactivated rm' = true.
Proof. exact deactivate_bytes_authorised. Qed.
Print Assumptions C02_deactivate_bytes_authorised.

Example C02_nonvacuous :
  exists a rm rm', a_type a = TUpdate /\
    apply (Build_protocol 1 [18%Z] 1 1 1 1 1 "" 1 1 1 1 [] [] [] 300 16 3) (fun d _ => Some d) a rm = Some rm'.
Proof.
  exists (Build_anchored TUpdate 5 1 0 "c" []
            {| v_parse_ok := true; v_signed_ok := true; v_sig_ok := true; v_suffix_ok := true;
               v_delta_hash_ok := true; v_delta_valid := true; v_update_c := "u"; v_recovery_c := "";
               v_origin := JNull; v_from := 0; v_until := 0; v_patches := [] |}).
  exists {| rm_doc := Some []; rm_created := 1; rm_updated := 0; rm_last_time := 1; rm_last_num := 0; rm_last_ver := 0;
            rm_update_c := "a"; rm_recovery_c := "b"; rm_deactivated := false; rm_origin := JNull; rm_equiv := [];
            rm_canon := "x"; rm_version := "x"; rm_published := []; rm_unpublished := [] |}.
  eexists. split; [reflexivity|]. vm_compute. reflexivity.
Qed.
