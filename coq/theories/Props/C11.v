(* C11 - A validated ietf-json-patch can never alter public keys or services. *)
From Coq Require Import String List Bool.
From Sidetree Require Import Json.Json Sidetree.JsonPatch Sidetree.Composer Sidetree.Validator Sidetree.Frame Sidetree.SeqFrame.
Import ListNotations.
Open Scope string_scope.

(* For every document, every operation list over all six kinds and every pointer spelling:
   if the patch passes validation and applies, the publicKey and service members of the result
   are those of the input.  Mirror: json-patch 4.1.0 as driven by applyJSON. *)
Theorem C11_ietf_frame : forall uri_ok url_norm doc p doc',
  match p with JObj pm => get_action pm = Some AJsonPatch | _ => False end ->
  validate_patch uri_ok url_norm p = true ->
  apply_patch doc p = Some doc' ->
  lookup "publicKey" doc' = lookup "publicKey" doc /\ lookup "service" doc' = lookup "service" doc.
Proof. exact ietf_frame. Qed.
Print Assumptions C11_ietf_frame.

(* An RFC 6901 token decodes to a protected name only if it is that name *)
Theorem C11_token_decode_exact : forall s x, plain s = true -> decode_key x = s -> x = s.
Proof. exact decode_key_plain. Qed.
Print Assumptions C11_token_decode_exact.

(* a pointer accepted by the validator addresses, with its first token, neither member *)
Theorem C11_pointer_ok_not_protected : forall p t,
  pointer_ok p = true -> first_tok p = Some t -> t <> "publicKey" /\ t <> "service".
Proof. exact pointer_ok_not_protected. Qed.
Print Assumptions C11_pointer_ok_not_protected.

(* Non-vacuity: a validated multi-operation patch that applies and changes other members;
   and the pointers the library would resolve to the keys are refused. *)
Definition ex_doc : obj := [("publicKey", JArr [JObj [("id", JStr "k1")]]); ("service", JArr []); ("other", JObj [("a", JNum "1")])].
Definition ex_patch : json :=
  JObj [("action", JStr "ietf-json-patch");
        ("patches", JArr [JObj [("op", JStr "copy"); ("from", JStr "/other"); ("path", JStr "/backup")];
                          JObj [("op", JStr "replace"); ("path", JStr "/backup/a"); ("value", JNum "2")];
                          JObj [("op", JStr "move"); ("from", JStr "/other"); ("path", JStr "/moved")]])].
Example C11_nonvacuous :
  validate_patch (fun _ => true) (fun s => Some s) ex_patch = true /\
  (exists d, apply_patch ex_doc ex_patch = Some d /\ lookup "moved" d = Some (JObj [("a", JNum "1")])
             /\ lookup "backup" d = Some (JObj [("a", JNum "2")])) /\
  pointer_ok "x/publicKey" = false /\ pointer_ok "/publicKey/0" = false /\ pointer_ok "/service" = false /\
  pointer_ok "/public~0Key" = true.
Proof. vm_compute. repeat split; try reflexivity. eexists. repeat split; reflexivity. Qed.

(* "Keys and services can therefore be changed only through the dedicated key and service patch
   actions": a validated ietf-json-patch followed by key / service removals that name no existing
   id leaves the key and the service entries of the document exactly as they were - whatever the
   json patch wrote under other member names (publicKeys, services, PublicKey ...). *)
Theorem C11_ietf_then_unknown_removals : forall uri_ok url_norm doc p d1 kv sv,
  match p with JObj pm => get_action pm = Some AJsonPatch | _ => False end ->
  validate_patch uri_ok url_norm p = true ->
  apply_patch doc p = Some d1 ->
  (forall e, In e (entries "publicKey" doc) -> mem_str (entry_id e) (string_array (Some kv)) = false) ->
  (forall e, In e (entries "service" doc) -> mem_str (entry_id e) (string_array (Some sv)) = false) ->
  let d3 := apply_remove_entries "service" (apply_remove_entries "publicKey" d1 kv) sv in
  entries "publicKey" d3 = entries "publicKey" doc /\ entries "service" d3 = entries "service" doc.
Proof. exact ietf_then_unknown_removals. Qed.
Print Assumptions C11_ietf_then_unknown_removals.
