(* C14 - Documents, patches and their byte encodings round-trip. *)
From Coq Require Import String List Bool.
From Sidetree Require Import Json.Json Sidetree.JsonPatch Sidetree.Composer Sidetree.Validator Sidetree.Builders Sidetree.RoundTrip Sidetree.Constructors.
Import ListNotations.
Open Scope string_scope.

(* documents carrying an id are refused *)
Theorem C14_doc_with_id_refused : forall doc, entry_id doc <> "" -> patches_from_document doc = None.
Proof. exact pfd_refuses_id. Qed.
Print Assumptions C14_doc_with_id_refused.

(* bytes lacking a supported action, or that action's value member, are not a patch *)
Theorem C14_missing_action_or_value_rejected : forall p,
  (get_action p = None \/ get_value p = None) -> forall doc, apply_patch doc (JObj p) = None.
Proof. exact apply_patch_needs_action_and_value. Qed.
Print Assumptions C14_missing_action_or_value_rejected.

(* accessors agree with content: the value is the member named by the action's key *)
Theorem C14_accessors_agree : forall p a, get_action p = Some a -> get_value p = lookup (value_key a) p.
Proof. exact get_value_def. Qed.
Print Assumptions C14_accessors_agree.

(* Converting a document into patches and applying those patches to an empty document
   reproduces the document: for every document of the class [doc_class] (no id; publicKey and
   service non-empty lists of objects; alsoKnownAs a non-empty list of strings; every member
   name once and free of '/' and '~'). *)
Theorem C14_doc_patches_roundtrip : forall doc, doc_class doc ->
  exists ps d, patches_from_document doc = Some ps /\ apply_patches [] ps = Some d /\ (forall k, lookup k d = lookup k doc).
Proof. exact doc_patches_roundtrip. Qed.
Print Assumptions C14_doc_patches_roundtrip.

(* every patch produced by the patch constructors from valid input passes validation: the patch a
   constructor returns validates exactly when its argument meets the validator's condition for that
   action ([input_valid]), and such an argument is never refused. uri_ok / url_norm stand for net/url. *)
Theorem C14_constructed_patch_validates : forall uri_ok url_norm a v p,
  new_patch a v = Some p -> validate_patch uri_ok url_norm p = input_valid uri_ok url_norm a v.
Proof. exact constructed_patch_validates. Qed.
Print Assumptions C14_constructed_patch_validates.

Theorem C14_valid_input_constructs : forall uri_ok url_norm a v,
  input_valid uri_ok url_norm a v = true ->
  exists p, new_patch a v = Some p /\ validate_patch uri_ok url_norm p = true.
Proof. exact valid_input_constructs. Qed.
Print Assumptions C14_valid_input_constructs.

(* the action and value accessors of a constructed patch give back the constructor's action and its
   argument (for the id / URI constructors: the argument read as a list of strings) *)
Theorem C14_constructed_patch_accessors : forall a v p,
  new_patch a v = Some p ->
  exists q w, p = JObj q /\ get_action q = Some a /\ get_value q = Some w /\
              (match a with
               | ARemovePublicKeys | ARemoveServices | AAddAlsoKnownAs | ARemoveAlsoKnownAs =>
                   exists l, get_string_array v = Some l /\ w = JArr (map JStr l)
               | _ => w = v
               end).
Proof. exact constructed_patch_accessors. Qed.
Print Assumptions C14_constructed_patch_accessors.

Example C14_constructor_example :
  new_patch ARemovePublicKeys (JArr [JStr "k1"; JNull]) =
    Some (JObj [("action", JStr "remove-public-keys"); ("ids", JArr [JStr "k1"; JStr ""])]) /\
  new_patch ARemovePublicKeys (JArr []) = None /\
  new_patch AReplace (JObj [("other", JNum "1")]) = None.
Proof. vm_compute. repeat split. Qed.

(* a member name with '/' or '~' needs escaping the builder does not do: outside the class *)
Example C14_class_boundary :
  match patches_from_document [("a/b", JNum "1")] with
  | Some ps => match apply_patches [] ps with Some d => obj_equiv d [("a/b", JNum "1")] | None => false end
  | None => false
  end = false.
Proof. vm_compute. reflexivity. Qed.

(* the same round trip computed on a concrete document of the class *)
Definition ex_doc : obj :=
  [("publicKey", JArr [JObj [("id", JStr "k1"); ("type", JStr "JsonWebKey2020")]]);
   ("service", JArr [JObj [("id", JStr "s1")]]);
   ("alsoKnownAs", JArr [JStr "https://a.example"]);
   ("other", JObj [("n", JNum "1")]); ("zeta", JNull)].
Example C14_roundtrip_example :
  match patches_from_document ex_doc with
  | Some ps => match apply_patches [] ps with Some d => obj_equiv d ex_doc | None => false end
  | None => false
  end = true.
Proof. vm_compute. reflexivity. Qed.
