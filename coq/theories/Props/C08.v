(* C08 - Client-built requests are accepted and yield the requested document.
   The four request builders are modelled (Sidetree/ClientCreate.v, ClientUpdate.v,
   ClientDeactivateRecover.v; the signed ones without anchoring window, the signature an
   opaque non-empty string) and their output proved acceptable to a parser configured with the
   matching protocol.  The Sidetree client, the anchoring-window options, "applying yields the
   requested document" and the anchored form are checked by correspondence on generated
   lifecycles (partial, see DESIGN C08). *)
From Coq Require Import ZArith NArith String List Bool.
From Sidetree Require Import Base.Sha2 Json.Json Json.Jcs Sidetree.Protocol Sidetree.Hashing Sidetree.Parser Sidetree.Applier
     Json.JcsProps Json.JcsRoundTrip Sidetree.JequivDecode Sidetree.ClientCreate
     Sidetree.Rules Sidetree.Validator Sidetree.ClientUpdate Sidetree.ClientDeactivateRecover Sidetree.Resolve Sidetree.Composer Sidetree.ClientApply Sidetree.ClientSimple Sidetree.ClientApplySigned Sidetree.Lifecycle Sidetree.Window Sidetree.ClientWindowed Sidetree.ClientWindowedDR Sidetree.ClientWindowedApply Sidetree.Anchored Sidetree.ValidatorJequiv Sidetree.ComposerOrder Sidetree.JsonPatchOrder Sidetree.ComposerOrderAll Sidetree.ApplierOrder Sidetree.AnchoredApply.
Import ListNotations.
Open Scope string_scope.

(* A create request built by NewCreateRequest from valid input is accepted by a parser configured
   with the matching protocol; the operation carries the suffix computed from the built suffix
   data under the first configured algorithm, the requested commitments, anchor origin and
   patches (up to member order: the request travels as canonical bytes).  [patches_valid]: every
   patch, as the caller supplied it, is enabled by the protocol and passes patch validation. *)
Theorem C08_create_built_accepted : forall cfg u n o t i bytes sd d a rest,
  build_create i = Some (bytes, sd, d) ->
  algs cfg = a :: rest -> (a = 18%N \/ a = 19%N) -> In (ci_code i) (algs cfg) ->
  (Z.of_nat (String.length bytes) <= P_MaxOperationSize cfg)%Z ->
  (Z.of_nat (String.length (ci_recovery_c i)) <= P_MaxOperationHashLength cfg)%Z ->
  (Z.of_nat (String.length (ci_update_c i)) <= P_MaxOperationHashLength cfg)%Z ->
  (Z.of_nat (String.length (sd_delta_hash sd)) <= P_MaxOperationHashLength cfg)%Z ->
  (forall c, jcs (img_delta d) = Some c -> (Z.of_nat (String.length c) <= P_MaxDeltaSize cfg)%Z) ->
  Forall is_obj (ci_patches i) -> Forall wfnum (ci_patches i) -> wfnum (ci_origin i) ->
  (forall o', jequiv (ci_origin i) o' -> o o' = true) ->
  patches_valid cfg u n (ci_patches i) ->
  exists p d',
    parse_operation cfg u n o t bytes false = Some p /\
    p_type p = "create" /\ calc_mh (img_suffix_data sd) a = Some (p_suffix p) /\
    p_delta p = Some d' /\ d_update_c d' = ci_update_c i /\ Forall2 jequiv (ci_patches i) (d_patches d') /\
    (exists sd', p_suffix_data p = Some sd' /\ sd_recovery_c sd' = ci_recovery_c i /\ jequiv (ci_origin i) (sd_origin sd')).
Proof. exact create_built_accepted_simple. Qed.
Print Assumptions C08_create_built_accepted.

(* ... and applying it to the empty state yields what the caller asked for: commitments, anchor
   origin, and the document the composer makes of the requested patches *)
Theorem C08_create_built_applies : forall cfg u n o i bytes sd d a rest t num ver canon equiv pub unpub,
  build_create i = Some (bytes, sd, d) ->
  algs cfg = a :: rest -> (a = 18%N \/ a = 19%N) -> In (ci_code i) (algs cfg) ->
  (Z.of_nat (String.length bytes) <= P_MaxOperationSize cfg)%Z ->
  (Z.of_nat (String.length (ci_recovery_c i)) <= P_MaxOperationHashLength cfg)%Z ->
  (Z.of_nat (String.length (ci_update_c i)) <= P_MaxOperationHashLength cfg)%Z ->
  (Z.of_nat (String.length (sd_delta_hash sd)) <= P_MaxOperationHashLength cfg)%Z ->
  (forall c, jcs (img_delta d) = Some c -> (Z.of_nat (String.length c) <= P_MaxDeltaSize cfg)%Z) ->
  Forall is_obj (ci_patches i) -> Forall wfnum (ci_patches i) -> wfnum (ci_origin i) ->
  (forall o', jequiv (ci_origin i) o' -> o o' = true) ->
  patches_valid cfg u n (ci_patches i) ->
  exists rm ps',
    apply_bytes cfg u n TCreate bytes true t num ver canon equiv (empty_rm pub unpub) = Some rm /\
    Forall2 jequiv (ci_patches i) ps' /\
    rm_recovery_c rm = ci_recovery_c i /\ rm_update_c rm = ci_update_c i /\ jequiv (ci_origin i) (rm_origin rm) /\
    rm_deactivated rm = false /\ rm_created rm = t /\
    rm_doc rm = Some (match apply_patches [] ps' with Some doc => doc | None => [] end).
Proof. exact create_built_applies_simple. Qed.
Print Assumptions C08_create_built_applies.

Theorem C08_update_built_accepted : forall cfg u n o t i bytes d dh,
  build_update i = Some (bytes, d, dh) ->
  In (ui_code i) (algs cfg) ->
  (Z.of_nat (String.length bytes) <= P_MaxOperationSize cfg)%Z ->
  hash_rule cfg (ui_reveal i) -> key_matches_reveal (Some (ui_key i)) (ui_reveal i) = true ->
  (Z.of_nat (String.length (ui_update_c i)) <= P_MaxOperationHashLength cfg)%Z -> mh_code (ui_update_c i) = Some (ui_code i) ->
  (Z.of_nat (String.length dh) <= P_MaxOperationHashLength cfg)%Z ->
  (forall c, jcs (img_delta d) = Some c -> (Z.of_nat (String.length c) <= P_MaxDeltaSize cfg)%Z) ->
  In (ui_alg i) (P_SignatureAlgorithms cfg) ->
  In (k_crv (ui_key i)) (P_KeyAlgorithms cfg) -> nonce_rule cfg (k_nonce (ui_key i)) ->
  t 0%Z (until_of cfg 0 0) = true ->
  Forall is_obj (ui_patches i) -> Forall wfnum (ui_patches i) ->
  patches_valid cfg u n (ui_patches i) ->
  exists p d',
    parse_operation cfg u n o t bytes false = Some p /\
    p_type p = "update" /\ p_suffix p = ui_suffix i /\ p_reveal p = ui_reveal i /\
    p_delta p = Some d' /\ d_update_c d' = ui_update_c i /\ Forall2 jequiv (ui_patches i) (d_patches d') /\
    p_time_args p = Some (0%Z, until_of cfg 0 0) /\
    parse_signed_update cfg (p_signed p) = Some {| su_key := Some (ui_key i); su_delta_hash := dh; su_from := 0; su_until := 0 |}.
Proof. exact update_built_accepted_simple. Qed.
Print Assumptions C08_update_built_accepted.

(* ... and applying it to a state that has a document yields the requested next update commitment
   and the document the composer makes of the requested patches from the current document (the
   current document when the patch list fails: the degraded outcome); recovery commitment, anchor
   origin and creation time are carried over.  The signature verdict is the oracle (true). *)
Theorem C08_update_built_applies : forall cfg u n i bytes d dh rm doc t num ver canon equiv,
  build_update i = Some (bytes, d, dh) ->
  In (ui_code i) (algs cfg) ->
  (Z.of_nat (String.length bytes) <= P_MaxOperationSize cfg)%Z ->
  hash_rule cfg (ui_reveal i) -> key_matches_reveal (Some (ui_key i)) (ui_reveal i) = true ->
  (Z.of_nat (String.length (ui_update_c i)) <= P_MaxOperationHashLength cfg)%Z -> mh_code (ui_update_c i) = Some (ui_code i) ->
  (Z.of_nat (String.length dh) <= P_MaxOperationHashLength cfg)%Z ->
  (forall c, jcs (img_delta d) = Some c -> (Z.of_nat (String.length c) <= P_MaxDeltaSize cfg)%Z) ->
  In (ui_alg i) (P_SignatureAlgorithms cfg) ->
  In (k_crv (ui_key i)) (P_KeyAlgorithms cfg) -> nonce_rule cfg (k_nonce (ui_key i)) ->
  Forall is_obj (ui_patches i) -> Forall wfnum (ui_patches i) ->
  patches_valid cfg u n (ui_patches i) ->
  rm_doc rm = Some doc ->
  exists rm' ps',
    apply_bytes cfg u n TUpdate bytes true t num ver canon equiv rm = Some rm' /\
    Forall2 jequiv (ui_patches i) ps' /\
    rm_update_c rm' = ui_update_c i /\ rm_recovery_c rm' = rm_recovery_c rm /\ rm_deactivated rm' = false /\
    rm_origin rm' = rm_origin rm /\ rm_created rm' = rm_created rm /\ rm_updated rm' = t /\
    rm_doc rm' = Some (match apply_patches doc ps' with Some doc' => doc' | None => doc end).
Proof. exact update_built_applies. Qed.
Print Assumptions C08_update_built_applies.

(* With an anchoring window (AnchorFrom / AnchorUntil in the update info, 0 <= f, u < 10^15): the
   built request is accepted, the signed data decode to the same window, and applied at anchoring
   time t the document is the composer's result exactly when t lies in the window; outside it the
   document is carried over (the commitment still advances).  build_update_w i 0 0 = build_update i. *)
Theorem C08_update_windowed_built_applies : forall cfg u n i f w bytes d dh rm doc t num ver canon equiv,
  build_update_w i f w = Some (bytes, d, dh) ->
  (0 <= f < 10 ^ 15)%Z -> (0 <= w < 10 ^ 15)%Z ->
  In (ui_code i) (algs cfg) ->
  (Z.of_nat (String.length bytes) <= P_MaxOperationSize cfg)%Z ->
  hash_rule cfg (ui_reveal i) -> key_matches_reveal (Some (ui_key i)) (ui_reveal i) = true ->
  (Z.of_nat (String.length (ui_update_c i)) <= P_MaxOperationHashLength cfg)%Z -> mh_code (ui_update_c i) = Some (ui_code i) ->
  (Z.of_nat (String.length dh) <= P_MaxOperationHashLength cfg)%Z ->
  (forall c, jcs (img_delta d) = Some c -> (Z.of_nat (String.length c) <= P_MaxDeltaSize cfg)%Z) ->
  In (ui_alg i) (P_SignatureAlgorithms cfg) ->
  In (k_crv (ui_key i)) (P_KeyAlgorithms cfg) -> nonce_rule cfg (k_nonce (ui_key i)) ->
  Forall is_obj (ui_patches i) -> Forall wfnum (ui_patches i) ->
  patches_valid cfg u n (ui_patches i) ->
  rm_doc rm = Some doc ->
  exists rm' ps',
    apply_bytes cfg u n TUpdate bytes true t num ver canon equiv rm = Some rm' /\
    Forall2 jequiv (ui_patches i) ps' /\
    rm_update_c rm' = ui_update_c i /\ rm_recovery_c rm' = rm_recovery_c rm /\ rm_deactivated rm' = false /\
    rm_origin rm' = rm_origin rm /\ rm_created rm' = rm_created rm /\ rm_updated rm' = t /\
    rm_doc rm' = Some (if verify_range_p cfg f w t
                       then match apply_patches doc ps' with Some doc' => doc' | None => doc end
                       else doc).
Proof. exact update_w_built_applies. Qed.
Print Assumptions C08_update_windowed_built_applies.

Theorem C08_update_windowed_is_update : forall i, build_update_w i 0 0 = build_update i.
Proof. exact build_update_w_zero. Qed.
Print Assumptions C08_update_windowed_is_update.

(* deactivate with an anchoring window: takes effect exactly when t lies in the window, else refused *)
Theorem C08_deactivate_windowed_built_applies : forall cfg u n i f w bytes rm doc t num ver canon equiv,
  build_deactivate_w i f w = Some bytes ->
  (0 <= f < 10 ^ 15)%Z -> (0 <= w < 10 ^ 15)%Z ->
  (Z.of_nat (String.length bytes) <= P_MaxOperationSize cfg)%Z ->
  hash_rule cfg (di_reveal i) -> key_matches_reveal (Some (di_key i)) (di_reveal i) = true ->
  In (di_alg i) (P_SignatureAlgorithms cfg) ->
  jwk_valid (di_key i) = true -> In (k_crv (di_key i)) (P_KeyAlgorithms cfg) -> nonce_rule cfg (k_nonce (di_key i)) ->
  rm_doc rm = Some doc ->
  if verify_range_p cfg f w t
  then exists rm',
    apply_bytes cfg u n TDeactivate bytes true t num ver canon equiv rm = Some rm' /\
    rm_deactivated rm' = true /\ rm_doc rm' = Some [] /\ rm_update_c rm' = "" /\ rm_recovery_c rm' = "" /\
    rm_origin rm' = rm_origin rm /\ rm_created rm' = rm_created rm /\ rm_updated rm' = t
  else apply_bytes cfg u n TDeactivate bytes true t num ver canon equiv rm = None.
Proof. exact deactivate_w_built_applies. Qed.
Print Assumptions C08_deactivate_windowed_built_applies.

(* recover with an anchoring window: commitments and origin installed whatever the time, the
   requested document exactly when t lies in the window (else the empty document) *)
Theorem C08_recover_windowed_built_applies : forall cfg u n i f w bytes d dh rm doc t num ver canon equiv,
  build_recover_w i f w = Some (bytes, d, dh) ->
  (0 <= f < 10 ^ 15)%Z -> (0 <= w < 10 ^ 15)%Z ->
  In (ri_code i) (algs cfg) ->
  (Z.of_nat (String.length bytes) <= P_MaxOperationSize cfg)%Z ->
  hash_rule cfg (ri_reveal i) -> key_matches_reveal (Some (ri_key i)) (ri_reveal i) = true ->
  (Z.of_nat (String.length (ri_update_c i)) <= P_MaxOperationHashLength cfg)%Z -> mh_code (ri_update_c i) = Some (ri_code i) ->
  (Z.of_nat (String.length (ri_recovery_c i)) <= P_MaxOperationHashLength cfg)%Z -> mh_code (ri_recovery_c i) = Some (ri_code i) ->
  ri_update_c i <> ri_recovery_c i ->
  (Z.of_nat (String.length dh) <= P_MaxOperationHashLength cfg)%Z ->
  (forall c, jcs (img_delta d) = Some c -> (Z.of_nat (String.length c) <= P_MaxDeltaSize cfg)%Z) ->
  In (ri_alg i) (P_SignatureAlgorithms cfg) ->
  In (k_crv (ri_key i)) (P_KeyAlgorithms cfg) -> nonce_rule cfg (k_nonce (ri_key i)) ->
  wfnum (ri_origin i) ->
  Forall is_obj (ri_patches i) -> Forall wfnum (ri_patches i) ->
  patches_valid cfg u n (ri_patches i) ->
  rm_doc rm = Some doc ->
  exists rm' ps',
    apply_bytes cfg u n TRecover bytes true t num ver canon equiv rm = Some rm' /\
    Forall2 jequiv (ri_patches i) ps' /\
    rm_update_c rm' = ri_update_c i /\ rm_recovery_c rm' = ri_recovery_c i /\ rm_deactivated rm' = false /\
    jequiv (ri_origin i) (rm_origin rm') /\ rm_created rm' = rm_created rm /\ rm_updated rm' = t /\
    rm_doc rm' = Some (if verify_range_p cfg f w t
                       then match apply_patches [] ps' with Some doc' => doc' | None => [] end
                       else []).
Proof. exact recover_w_built_applies. Qed.
Print Assumptions C08_recover_windowed_built_applies.

Theorem C08_windowed_builders_extend : forall di ri,
  build_deactivate_w di 0 0 = build_deactivate di /\ build_recover_w ri 0 0 = build_recover ri.
Proof. intros di ri. split; [exact (build_deactivate_w_zero di)|exact (build_recover_w_zero ri)]. Qed.
Print Assumptions C08_windowed_builders_extend.

Theorem C08_deactivate_built_accepted : forall cfg u n o t i bytes,
  build_deactivate i = Some bytes ->
  (Z.of_nat (String.length bytes) <= P_MaxOperationSize cfg)%Z ->
  hash_rule cfg (di_reveal i) -> key_matches_reveal (Some (di_key i)) (di_reveal i) = true ->
  In (di_alg i) (P_SignatureAlgorithms cfg) ->
  jwk_valid (di_key i) = true -> In (k_crv (di_key i)) (P_KeyAlgorithms cfg) -> nonce_rule cfg (k_nonce (di_key i)) ->
  t 0%Z (until_of cfg 0 0) = true ->
  exists p,
    parse_operation cfg u n o t bytes false = Some p /\
    p_type p = "deactivate" /\ p_suffix p = di_suffix i /\ p_reveal p = di_reveal i /\ p_delta p = None /\
    parse_signed_deactivate cfg (p_signed p) = Some {| sx_suffix := di_suffix i; sx_key := Some (di_key i); sx_from := 0; sx_until := 0 |}.
Proof. exact deactivate_built_accepted. Qed.
Print Assumptions C08_deactivate_built_accepted.

Theorem C08_recover_built_accepted : forall cfg u n o t i bytes d dh,
  build_recover i = Some (bytes, d, dh) ->
  In (ri_code i) (algs cfg) ->
  (Z.of_nat (String.length bytes) <= P_MaxOperationSize cfg)%Z ->
  hash_rule cfg (ri_reveal i) -> key_matches_reveal (Some (ri_key i)) (ri_reveal i) = true ->
  (Z.of_nat (String.length (ri_update_c i)) <= P_MaxOperationHashLength cfg)%Z -> mh_code (ri_update_c i) = Some (ri_code i) ->
  (Z.of_nat (String.length (ri_recovery_c i)) <= P_MaxOperationHashLength cfg)%Z -> mh_code (ri_recovery_c i) = Some (ri_code i) ->
  ri_update_c i <> ri_recovery_c i ->
  (Z.of_nat (String.length dh) <= P_MaxOperationHashLength cfg)%Z ->
  (forall c, jcs (img_delta d) = Some c -> (Z.of_nat (String.length c) <= P_MaxDeltaSize cfg)%Z) ->
  In (ri_alg i) (P_SignatureAlgorithms cfg) ->
  In (k_crv (ri_key i)) (P_KeyAlgorithms cfg) -> nonce_rule cfg (k_nonce (ri_key i)) ->
  t 0%Z (until_of cfg 0 0) = true ->
  wfnum (ri_origin i) -> (forall o', jequiv (ri_origin i) o' -> o o' = true) ->
  Forall is_obj (ri_patches i) -> Forall wfnum (ri_patches i) ->
  patches_valid cfg u n (ri_patches i) ->
  exists p d',
    parse_operation cfg u n o t bytes false = Some p /\
    p_type p = "recover" /\ p_suffix p = ri_suffix i /\ p_reveal p = ri_reveal i /\
    p_delta p = Some d' /\ d_update_c d' = ri_update_c i /\ Forall2 jequiv (ri_patches i) (d_patches d') /\
    jequiv (ri_origin i) (p_origin p) /\
    parse_signed_recover cfg (p_signed p) = Some {| sr_delta_hash := dh; sr_key := Some (ri_key i); sr_recovery_c := ri_recovery_c i;
                                                    sr_origin := p_origin p; sr_from := 0; sr_until := 0 |}.
Proof. exact recover_built_accepted_simple. Qed.
Print Assumptions C08_recover_built_accepted.

(* applying a built deactivate request to a state that has a document: deactivated, empty
   document, no commitments *)
Theorem C08_deactivate_built_applies : forall cfg u n i bytes rm doc t num ver canon equiv,
  build_deactivate i = Some bytes ->
  (Z.of_nat (String.length bytes) <= P_MaxOperationSize cfg)%Z ->
  hash_rule cfg (di_reveal i) -> key_matches_reveal (Some (di_key i)) (di_reveal i) = true ->
  In (di_alg i) (P_SignatureAlgorithms cfg) ->
  jwk_valid (di_key i) = true -> In (k_crv (di_key i)) (P_KeyAlgorithms cfg) -> nonce_rule cfg (k_nonce (di_key i)) ->
  rm_doc rm = Some doc ->
  exists rm',
    apply_bytes cfg u n TDeactivate bytes true t num ver canon equiv rm = Some rm' /\
    rm_deactivated rm' = true /\ rm_doc rm' = Some [] /\ rm_update_c rm' = "" /\ rm_recovery_c rm' = "" /\
    rm_origin rm' = rm_origin rm /\ rm_created rm' = rm_created rm /\ rm_updated rm' = t.
Proof. exact deactivate_built_applies. Qed.
Print Assumptions C08_deactivate_built_applies.

(* applying a built recover request: both requested commitments, the requested anchor origin, and
   the document the composer makes of the requested patches from the empty document *)
Theorem C08_recover_built_applies : forall cfg u n i bytes d dh rm doc t num ver canon equiv,
  build_recover i = Some (bytes, d, dh) ->
  In (ri_code i) (algs cfg) ->
  (Z.of_nat (String.length bytes) <= P_MaxOperationSize cfg)%Z ->
  hash_rule cfg (ri_reveal i) -> key_matches_reveal (Some (ri_key i)) (ri_reveal i) = true ->
  (Z.of_nat (String.length (ri_update_c i)) <= P_MaxOperationHashLength cfg)%Z -> mh_code (ri_update_c i) = Some (ri_code i) ->
  (Z.of_nat (String.length (ri_recovery_c i)) <= P_MaxOperationHashLength cfg)%Z -> mh_code (ri_recovery_c i) = Some (ri_code i) ->
  ri_update_c i <> ri_recovery_c i ->
  (Z.of_nat (String.length dh) <= P_MaxOperationHashLength cfg)%Z ->
  (forall c, jcs (img_delta d) = Some c -> (Z.of_nat (String.length c) <= P_MaxDeltaSize cfg)%Z) ->
  In (ri_alg i) (P_SignatureAlgorithms cfg) ->
  In (k_crv (ri_key i)) (P_KeyAlgorithms cfg) -> nonce_rule cfg (k_nonce (ri_key i)) ->
  wfnum (ri_origin i) ->
  Forall is_obj (ri_patches i) -> Forall wfnum (ri_patches i) ->
  patches_valid cfg u n (ri_patches i) ->
  rm_doc rm = Some doc ->
  exists rm' ps',
    apply_bytes cfg u n TRecover bytes true t num ver canon equiv rm = Some rm' /\
    Forall2 jequiv (ri_patches i) ps' /\
    rm_update_c rm' = ri_update_c i /\ rm_recovery_c rm' = ri_recovery_c i /\ rm_deactivated rm' = false /\
    jequiv (ri_origin i) (rm_origin rm') /\ rm_created rm' = rm_created rm /\ rm_updated rm' = t /\
    rm_doc rm' = Some (match apply_patches [] ps' with Some doc' => doc' | None => [] end).
Proof. exact recover_built_applies. Qed.
Print Assumptions C08_recover_built_applies.

(* every run of built updates, of any length, applied in order: none is refused, the document is
   the fold of the requested patch lists over the current document, the update commitment is the
   one requested last; recovery commitment, anchor origin and creation time never move *)
Theorem C08_updates_built_apply : forall cfg u n us rm doc,
  Forall (update_ok cfg u n) us -> rm_doc rm = Some doc ->
  exists pss,
    Forall2 (fun a ps' => Forall2 jequiv (ui_patches (au_info a)) ps') us pss /\
    let rm' := fold_left (apply_update_step cfg u n) us rm in
    rm_doc rm' = Some (fold_left doc_step pss doc) /\
    rm_update_c rm' = last_commitment us (rm_update_c rm) /\
    rm_recovery_c rm' = rm_recovery_c rm /\ rm_origin rm' = rm_origin rm /\ rm_created rm' = rm_created rm /\
    (us <> [] -> rm_deactivated rm' = false).
Proof. exact updates_built_apply. Qed.
Print Assumptions C08_updates_built_apply.

(* every run of built updates carrying anchoring windows, of any length: none is refused, every
   commitment advances, and the document is the fold of exactly those requested patch lists whose
   step was anchored inside its own window (update_w_ok bundles the per-step hypotheses) *)
Theorem C08_updates_windowed_built_apply : forall cfg u n ws rm doc,
  Forall (update_w_ok cfg u n) ws -> rm_doc rm = Some doc ->
  exists pss,
    Forall2 (fun w ps' => Forall2 jequiv (ui_patches (au_info (aw_update w))) ps') ws pss /\
    let rm' := fold_left (apply_update_step cfg u n) (map aw_update ws) rm in
    rm_doc rm' = Some (fold_left (doc_step_w cfg) (combine ws pss) doc) /\
    rm_update_c rm' = last_commitment (map aw_update ws) (rm_update_c rm) /\
    rm_recovery_c rm' = rm_recovery_c rm /\ rm_origin rm' = rm_origin rm /\ rm_created rm' = rm_created rm /\
    (ws <> [] -> rm_deactivated rm' = false).
Proof. exact updates_w_built_apply. Qed.
Print Assumptions C08_updates_windowed_built_apply.

(* the whole lifecycle create -> update* -> recover -> update* -> deactivate, every request built by
   the builders from valid input (create_ok / update_ok / recover_ok / deactivate_ok bundle the
   hypotheses of the per-step theorems), applied in order with arbitrary anchoring data: no step
   is refused, and after every phase the state is what the caller asked for *)
Theorem C08_lifecycle_built_applies : forall cfg u n ci cbytes ca us1 ri rbytes ra us2 di dbytes da pub unpub,
  create_ok cfg u n ci cbytes -> Forall (update_ok cfg u n) us1 ->
  recover_ok cfg u n ri rbytes -> Forall (update_ok cfg u n) us2 ->
  deactivate_ok cfg di dbytes ->
  exists rm1 rm3 rm5 ps0 pss1 psr pss2,
    apply_at cfg u n TCreate cbytes ca (empty_rm pub unpub) = Some rm1 /\
    Forall2 jequiv (ci_patches ci) ps0 /\
    rm_doc rm1 = Some (doc_step [] ps0) /\ rm_recovery_c rm1 = ci_recovery_c ci /\ rm_update_c rm1 = ci_update_c ci /\
    let rm2 := fold_left (apply_update_step cfg u n) us1 rm1 in
    Forall2 (fun a ps' => Forall2 jequiv (ui_patches (au_info a)) ps') us1 pss1 /\
    rm_doc rm2 = Some (fold_left doc_step pss1 (doc_step [] ps0)) /\
    rm_update_c rm2 = last_commitment us1 (ci_update_c ci) /\ rm_recovery_c rm2 = ci_recovery_c ci /\
    apply_at cfg u n TRecover rbytes ra rm2 = Some rm3 /\
    Forall2 jequiv (ri_patches ri) psr /\
    rm_doc rm3 = Some (doc_step [] psr) /\ rm_recovery_c rm3 = ri_recovery_c ri /\ rm_update_c rm3 = ri_update_c ri /\
    jequiv (ri_origin ri) (rm_origin rm3) /\
    let rm4 := fold_left (apply_update_step cfg u n) us2 rm3 in
    Forall2 (fun a ps' => Forall2 jequiv (ui_patches (au_info a)) ps') us2 pss2 /\
    rm_doc rm4 = Some (fold_left doc_step pss2 (doc_step [] psr)) /\
    rm_update_c rm4 = last_commitment us2 (ri_update_c ri) /\ rm_recovery_c rm4 = ri_recovery_c ri /\
    apply_at cfg u n TDeactivate dbytes da rm4 = Some rm5 /\
    rm_deactivated rm5 = true /\ rm_doc rm5 = Some [] /\ rm_update_c rm5 = "" /\ rm_recovery_c rm5 = "" /\
    rm_created rm5 = an_time ca.
Proof. exact lifecycle_built_applies. Qed.
Print Assumptions C08_lifecycle_built_applies.

(* Converting an accepted request to its anchored form (model.GetAnchoredOperation: the canonical
   encoding of the request struct rebuilt from the parsed operation) preserves it: the anchored
   bytes - when within the operation size limit; re-spelling a number can lengthen a request - are
   accepted again and denote the same operation.  Deactivate: the very same parsed operation.
   Update / recover: the same but for the member order of the patches.  Create: the same suffix,
   commitments and delta hash; anchor origin and patches up to member order (the anchor-origin
   validator is assumed to look at the value, not at member order).  Anchoring the re-read
   operation once more gives the same bytes.  The two byte strings apply to the same state (below,
   C08_*_anchored_applies_alike): proved for deltas without `test` operations; for deltas containing
   ietf-json-patch the composer's behaviour under re-ordering is decided by correspondence. *)
Theorem C08_deactivate_anchored : forall cfg u n o t bytes p b',
  parse_operation cfg u n o t bytes false = Some p -> p_type p = "deactivate" ->
  anchored_bytes p = Some b' -> (Z.of_nat (String.length b') <= P_MaxOperationSize cfg)%Z ->
  parse_operation cfg u n o t b' false = Some p.
Proof. exact deactivate_anchored. Qed.
Print Assumptions C08_deactivate_anchored.

Theorem C08_update_anchored : forall cfg u n o t bytes p b',
  parse_operation cfg u n o t bytes false = Some p -> p_type p = "update" ->
  anchored_bytes p = Some b' -> (Z.of_nat (String.length b') <= P_MaxOperationSize cfg)%Z ->
  exists d d', p_delta p = Some d /\
    parse_operation cfg u n o t b' false =
      Some {| p_type := p_type p; p_suffix := p_suffix p; p_origin := p_origin p; p_reveal := p_reveal p;
              p_signed := p_signed p; p_delta := Some d'; p_suffix_data := p_suffix_data p;
              p_time_args := p_time_args p; p_origin_arg := p_origin_arg p |} /\
    d_update_c d' = d_update_c d /\ Forall2 jequiv (d_patches d) (d_patches d').
Proof. exact update_anchored. Qed.
Print Assumptions C08_update_anchored.

Theorem C08_recover_anchored : forall cfg u n o t bytes p b',
  parse_operation cfg u n o t bytes false = Some p -> p_type p = "recover" ->
  anchored_bytes p = Some b' -> (Z.of_nat (String.length b') <= P_MaxOperationSize cfg)%Z ->
  exists d d', p_delta p = Some d /\
    parse_operation cfg u n o t b' false =
      Some {| p_type := p_type p; p_suffix := p_suffix p; p_origin := p_origin p; p_reveal := p_reveal p;
              p_signed := p_signed p; p_delta := Some d'; p_suffix_data := p_suffix_data p;
              p_time_args := p_time_args p; p_origin_arg := p_origin_arg p |} /\
    d_update_c d' = d_update_c d /\ Forall2 jequiv (d_patches d) (d_patches d').
Proof. exact recover_anchored. Qed.
Print Assumptions C08_recover_anchored.

Theorem C08_create_anchored : forall cfg u n o t,
  (forall a b, jequiv a b -> o a = o b) ->
  forall bytes p b',
  parse_operation cfg u n o t bytes false = Some p -> p_type p = "create" ->
  anchored_bytes p = Some b' -> (Z.of_nat (String.length b') <= P_MaxOperationSize cfg)%Z ->
  exists d d' s o',
    p_delta p = Some d /\ p_suffix_data p = Some s /\ jequiv (sd_origin s) o' /\
    parse_operation cfg u n o t b' false =
      Some {| p_type := "create"; p_suffix := p_suffix p; p_origin := o'; p_reveal := ""; p_signed := "";
              p_delta := Some d';
              p_suffix_data := Some {| sd_delta_hash := sd_delta_hash s; sd_recovery_c := sd_recovery_c s;
                                       sd_origin := o'; sd_type := sd_type s |};
              p_time_args := None; p_origin_arg := Some o' |} /\
    d_update_c d' = d_update_c d /\ Forall2 jequiv (d_patches d) (d_patches d').
Proof. exact create_anchored. Qed.
Print Assumptions C08_create_anchored.

Theorem C08_anchoring_is_idempotent : forall p p' d d',
  (p_type p = "update" \/ p_type p = "recover") -> p_delta p = Some d ->
  p' = {| p_type := p_type p; p_suffix := p_suffix p; p_origin := p_origin p; p_reveal := p_reveal p;
          p_signed := p_signed p; p_delta := Some d'; p_suffix_data := p_suffix_data p;
          p_time_args := p_time_args p; p_origin_arg := p_origin_arg p |} ->
  d_update_c d' = d_update_c d -> Forall2 jequiv (d_patches d) (d_patches d') ->
  anchored_bytes p' = anchored_bytes p.
Proof. exact anchored_bytes_stable. Qed.
Print Assumptions C08_anchoring_is_idempotent.

Theorem C08_anchoring_is_idempotent_create : forall p d d' s o',
  p_type p = "create" -> p_delta p = Some d -> p_suffix_data p = Some s -> jequiv (sd_origin s) o' ->
  d_update_c d' = d_update_c d -> Forall2 jequiv (d_patches d) (d_patches d') ->
  anchored_bytes {| p_type := "create"; p_suffix := p_suffix p; p_origin := o'; p_reveal := ""; p_signed := "";
                    p_delta := Some d';
                    p_suffix_data := Some {| sd_delta_hash := sd_delta_hash s; sd_recovery_c := sd_recovery_c s;
                                             sd_origin := o'; sd_type := sd_type s |};
                    p_time_args := None; p_origin_arg := Some o' |} = anchored_bytes p.
Proof. exact anchored_bytes_stable_create. Qed.
Print Assumptions C08_anchoring_is_idempotent_create.

(* ... and apply to the same state: at byte level (the applier derives its view from the bytes with
   the parser mirror in batch mode), on states equal up to the member order of their documents
   (rm_rel: every other field equal), the request and its anchored form are both refused or give
   states equal up to member order.  Deltas whose ietf-json-patches hold no `test` operation (order_blind). *)
Theorem C08_update_anchored_applies_alike : forall cfg u n o t bytes p b' sig_ok tm num ver canon equiv rm rm',
  parse_operation cfg u n o t bytes false = Some p -> p_type p = "update" ->
  anchored_bytes p = Some b' -> (Z.of_nat (String.length b') <= P_MaxOperationSize cfg)%Z ->
  (forall d, p_delta p = Some d -> Forall order_blind (d_patches d)) ->
  rm_rel rm rm' ->
  opt_rm_rel (apply_bytes cfg u n TUpdate bytes sig_ok tm num ver canon equiv rm)
             (apply_bytes cfg u n TUpdate b' sig_ok tm num ver canon equiv rm').
Proof. exact update_anchored_applies_alike. Qed.
Print Assumptions C08_update_anchored_applies_alike.

Theorem C08_recover_anchored_applies_alike : forall cfg u n o t bytes p b' sig_ok tm num ver canon equiv rm rm',
  parse_operation cfg u n o t bytes false = Some p -> p_type p = "recover" ->
  anchored_bytes p = Some b' -> (Z.of_nat (String.length b') <= P_MaxOperationSize cfg)%Z ->
  (forall d, p_delta p = Some d -> Forall order_blind (d_patches d)) ->
  rm_rel rm rm' ->
  opt_rm_rel (apply_bytes cfg u n TRecover bytes sig_ok tm num ver canon equiv rm)
             (apply_bytes cfg u n TRecover b' sig_ok tm num ver canon equiv rm').
Proof. exact recover_anchored_applies_alike. Qed.
Print Assumptions C08_recover_anchored_applies_alike.

Theorem C08_create_anchored_applies_alike : forall cfg u n o t,
  (forall a b, jequiv a b -> o a = o b) ->
  forall bytes p b' sig_ok tm num ver canon equiv rm rm',
  parse_operation cfg u n o t bytes false = Some p -> p_type p = "create" ->
  anchored_bytes p = Some b' -> (Z.of_nat (String.length b') <= P_MaxOperationSize cfg)%Z ->
  (forall d, p_delta p = Some d -> Forall order_blind (d_patches d)) ->
  rm_rel rm rm' ->
  opt_rm_rel (apply_bytes cfg u n TCreate bytes sig_ok tm num ver canon equiv rm)
             (apply_bytes cfg u n TCreate b' sig_ok tm num ver canon equiv rm').
Proof. exact create_anchored_applies_alike. Qed.
Print Assumptions C08_create_anchored_applies_alike.

Theorem C08_deactivate_anchored_applies_alike : forall cfg u n o t bytes p b' sig_ok tm num ver canon equiv rm,
  parse_operation cfg u n o t bytes false = Some p -> p_type p = "deactivate" ->
  anchored_bytes p = Some b' -> (Z.of_nat (String.length b') <= P_MaxOperationSize cfg)%Z ->
  apply_bytes cfg u n TDeactivate bytes sig_ok tm num ver canon equiv rm =
  apply_bytes cfg u n TDeactivate b' sig_ok tm num ver canon equiv rm.
Proof. exact deactivate_anchored_applies_alike. Qed.
Print Assumptions C08_deactivate_anchored_applies_alike.

(* whole histories: every request replaced by its anchored form (astep_ok: accepted at request time,
   anchored form within the size limit, delta without `test` operations), folded by the byte-level
   applier over states equal up to member order: the resolved states are equal up to member order *)
Theorem C08_history_anchored_resolves_alike : forall cfg u n o t,
  (forall a b, jequiv a b -> o a = o b) ->
  forall steps rm rm',
  Forall (astep_ok cfg u n o t) steps -> rm_rel rm rm' ->
  rm_rel (fold_left (step_with cfg u n as_bytes) steps rm) (fold_left (step_with cfg u n as_anchored) steps rm').
Proof. exact history_anchored_resolves_alike. Qed.
Print Assumptions C08_history_anchored_resolves_alike.

(* a reveal value computed from a key validates against that key (what builders rely on when
   they derive the reveal value from the signer's key and the operation commitment's algorithm) *)
Theorem C08_reveal_matches_key_partial : forall k code rv,
  reveal (img_jwk k) code = Some rv -> key_matches_reveal (Some k) rv = true.
Proof. exact reveal_matches_key. Qed.
Print Assumptions C08_reveal_matches_key_partial.

(* a delta hash computed by the builder validates (builders and parser use the same primitive) *)
Theorem C08_delta_hash_validates_partial : forall d code h,
  calc_mh (img_delta d) code = Some h -> valid_mh (img_delta_opt (Some d)) h = true.
Proof. exact delta_hash_validates. Qed.
Print Assumptions C08_delta_hash_validates_partial.

(* lifecycle fold: with all verdicts true, create -> update -> deactivate yields the requested
   commitments and flags (concrete instance; the general statement is C01_run_refines_spec) *)
Example C08_lifecycle_example :
  let v uc rc ps := {| v_parse_ok := true; v_signed_ok := true; v_sig_ok := true; v_suffix_ok := true; v_delta_hash_ok := true;
                       v_delta_valid := true; v_update_c := uc; v_recovery_c := rc; v_origin := JNull; v_from := 0%Z; v_until := 0%Z;
                       v_patches := ps |} in
  let cfg := Build_protocol 1 [18%Z] 1 1 1 1 1 "" 1 1 1 1 [] [] [] 300 16 3 in
  let final := run cfg (fun d _ => Some d) (empty_rm [] [])
                 [Build_anchored TCreate 1 0 0 "a" [] (v "u1" "r1" []);
                  Build_anchored TUpdate 2 0 0 "b" [] (v "u2" "" []);
                  Build_anchored TDeactivate 3 0 0 "c" [] (v "" "" [])] in
  rm_deactivated final = true /\ rm_update_c final = "" /\ rm_recovery_c final = "" /\ rm_doc final = Some [].
Proof. vm_compute. repeat split; reflexivity. Qed.
