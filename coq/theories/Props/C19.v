(* C19 - Untrusted input is answered with an error, never a panic.
   In the mirrors every unchecked Go operation of the JSON patch library is an explicit
   [PPanic] outcome and unbounded allocation an explicit [PBlowup]; the composer turns them into
   errors (the deferred recover, whose presence is re-checked from the source on every run).
   Totality of the mirrors is by construction (structural / fuelled Gallina); panics inside
   third-party code other than the mirrored json-patch paths are covered by the malformed-input
   stream only (partial, see DESIGN C19). *)
From Coq Require Import String List Bool.
From Sidetree Require Import Json.Json Sidetree.JsonPatch Sidetree.Composer.
From Sidetree Require Import Agree.AgreeStruct.
Import ListNotations.
Open Scope string_scope.

(* whatever the JSON patch mirror does - including its panics - applyJSON answers with a value
   or an error, and an error yields no partial document *)
Theorem C19_apply_json_total : forall doc v, exists r : option obj, apply_json doc v = r.
Proof. intros. eexists. reflexivity. Qed.

(* the panics are real in the library mirror (witnesses) and are absorbed by the composer *)
Theorem C19_library_panics_absorbed :
  let doc := [("arr", JArr [JNum "1"]); ("n", JNull)] in
  (* test without value on a missing path *)
  jsonpatch_apply doc [JObj [("op", JStr "test"); ("path", JStr "/missing")]] = PPanic /\
  apply_json doc (JArr [JObj [("op", JStr "test"); ("path", JStr "/missing")]]) = None /\
  (* copy to a negative array index *)
  jsonpatch_apply doc [JObj [("op", JStr "copy"); ("from", JStr "/n"); ("path", JStr "/arr/-1")]] = PPanic /\
  apply_json doc (JArr [JObj [("op", JStr "copy"); ("from", JStr "/n"); ("path", JStr "/arr/-1")]]) = None /\
  (* copy into its own subtree is refused before the library can build a cycle *)
  copy_into_self (JObj [("op", JStr "copy"); ("from", JStr "/arr"); ("path", JStr "/arr/0/x")]) = true /\
  copy_into_self (JObj [("op", JStr "copy"); ("from", JStr "/arr/1"); ("path", JStr "/arr/01/x")]) = true.
Proof. vm_compute. repeat split; reflexivity. Qed.
Print Assumptions C19_library_panics_absorbed.

(* the only recover in the in-scope packages is the one around the JSON patch library, and the
   inventory of explicit panics / unchecked assertions is the reviewed one *)
Theorem C19_recover_present : SidetreeGen.GenStruct.gen_recover_sites = ["doccomposer:applyJSON"].
Proof. exact recover_sites_agree. Qed.
Print Assumptions C19_recover_present.

(* allocation by index is bounded in the model by an explicit outcome, not hidden *)
Example C19_blowup_is_explicit :
  jsonpatch_apply [("arr", JArr [JNum "1"])] [JObj [("op", JStr "copy"); ("from", JStr "/arr/0"); ("path", JStr "/arr/50000000")]] = PBlowup.
Proof. vm_compute. reflexivity. Qed.
