(* C16 - Public keys survive the JWK encoding unchanged and at fixed width. *)
From Coq Require Import ZArith NArith String List Bool.
From Sidetree Require Import Base.Base64url Sidetree.Parser Sidetree.Jwk.
Import ListNotations.
Open Scope string_scope.

(* fixed-width big-endian encoding: exact width, leading zeros preserved, value recovered *)
Theorem C16_fixed_width : forall w z,
  (0 <= z < 256 ^ Z.of_nat w)%Z -> be_decode (be_fixed w z) = z /\ String.length (be_fixed w z) = w.
Proof. exact be_decode_fixed. Qed.
Print Assumptions C16_fixed_width.

(* every point of P-256, P-384, P-521 and secp256k1 survives the JWK encoding *)
Theorem C16_ec_jwk_roundtrip : forall c x y,
  In c curves -> on_curve c x y = true -> ec_of_jwk (jwk_of_ec c x y) = Some (c, x, y).
Proof. exact ec_jwk_roundtrip. Qed.
Print Assumptions C16_ec_jwk_roundtrip.

(* coordinates are encoded at the curve's full byte width *)
Theorem C16_coord_width : forall c x y,
  In c curves -> on_curve c x y = true ->
  option_map String.length (b64_decode (k_x (jwk_of_ec c x y))) = Some (c_size c) /\
  option_map String.length (b64_decode (k_y (jwk_of_ec c x y))) = Some (c_size c).
Proof. exact ec_coord_width. Qed.
Print Assumptions C16_coord_width.

Theorem C16_wrong_width_rejected : forall k c xb yb,
  k_kty k = "EC" -> find_curve (k_crv k) = Some c -> b64_decode (k_x k) = Some xb -> b64_decode (k_y k) = Some yb ->
  (String.length xb <> c_size c \/ String.length yb <> c_size c) -> ec_of_jwk k = None.
Proof. exact ec_wrong_width_rejected. Qed.
Print Assumptions C16_wrong_width_rejected.

Theorem C16_off_curve_rejected : forall k c x y, ec_of_jwk k = Some (c, x, y) -> on_curve c x y = true.
Proof. exact ec_off_curve_rejected. Qed.
Print Assumptions C16_off_curve_rejected.

Theorem C16_ed_jwk_roundtrip : forall pub, String.length pub = 32%nat -> ed_of_jwk (jwk_of_ed pub) = Some pub.
Proof. exact ed_jwk_roundtrip. Qed.
Print Assumptions C16_ed_jwk_roundtrip.

(* Non-vacuity: the secp256k1 generator, and a coordinate with leading zero bytes *)
Example C16_nonvacuous :
  match find_curve "secp256k1" with
  | Some c => on_curve c 55066263022277343669578718895168534326250603453777594175500187360389116729240
                         32670510020758816978083085130507043184471273380659243275938904335757337482424
  | None => false end = true /\
  String.length (be_fixed 32 255) = 32%nat /\ be_decode (be_fixed 32 255) = 255%Z.
Proof. vm_compute. repeat split; reflexivity. Qed.
