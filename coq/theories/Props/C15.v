(* C15 - JWS signatures verify iff produced by the matching key over the same bytes.
   Relative to the primitive oracle [prim] (ECDSA / Ed25519 verification of a message under a
   key); unforgeability of the primitives is the named residue. *)
From Coq Require Import ZArith NArith String List Bool.
From Sidetree Require Import Json.Json Sidetree.Parser Sidetree.Jwk Sidetree.Jws.
Import ListNotations.
Open Scope string_scope.

(* verification succeeds exactly when the compact form parses, the signing input can be built
   from the (re-marshalled) protected header and payload, and the key accepts the signature
   over exactly those bytes; the payload returned is the decoded payload segment *)
Theorem C15_verify_characterised : forall prim compact k payload,
  verify_jws prim compact k = Some payload <->
  exists j si, parse_jws compact = Some j /\ j_payload j = payload /\
               signing_input (j_headers j) (j_payload j) = Some si /\
               verify_signature prim k (j_signature j) si = true.
Proof. exact verify_jws_characterised. Qed.
Print Assumptions C15_verify_characterised.

(* EC: only signatures of exactly twice the curve width, under a key with full-width on-curve
   coordinates, reach the primitive *)
Theorem C15_ec_width_and_key : forall prim k signature msg,
  k_kty k = "EC" -> verify_signature prim k signature msg = true ->
  exists c x y, ec_of_jwk k = Some (c, x, y) /\ String.length signature = (2 * c_size c)%nat /\
                prim (c_name c) (k_x k) (k_y k) msg signature = true.
Proof. exact ec_verify_needs_width_and_key. Qed.
Print Assumptions C15_ec_width_and_key.

Theorem C15_unsupported_key_type_rejected : forall prim k signature msg,
  k_kty k <> "EC" -> k_kty k <> "OKP" -> verify_signature prim k signature msg = false.
Proof. exact unsupported_key_type_rejected. Qed.
Print Assumptions C15_unsupported_key_type_rejected.

Example C15_nonvacuous :
  verify_jws (fun crv _ _ msg sg => andb (String.eqb crv "Ed25519") (String.eqb msg "eyJhbGciOiJFZERTQSJ9.YQ"))
             "eyJhbGciOiJFZERTQSJ9.YQ.c2ln" (jwk_of_ed "01234567890123456789012345678901") = Some "a".
Proof. vm_compute. reflexivity. Qed.
