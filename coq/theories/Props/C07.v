(* C07 - The parser accepts exactly what the protocol allows and reports it faithfully. *)
From Coq Require Import ZArith NArith String List Bool.
From Sidetree Require Import Json.Json Sidetree.Protocol Sidetree.Window Sidetree.Parser.
Import ListNotations.
Open Scope string_scope.

(* the size gate is exact at the boundary and comes before anything else *)
Theorem C07_size_gate : forall cfg u n o t bytes batch,
  (P_MaxOperationSize cfg < Z.of_nat (String.length bytes))%Z -> parse_operation cfg u n o t bytes batch = None.
Proof. exact size_gate. Qed.
Print Assumptions C07_size_gate.

(* what an accepted request reports: namespaced id, and for update/recover/deactivate the
   request's own did suffix *)
Theorem C07_parse_reports_id : forall cfg u n o t ns bytes ty sfx id origin,
  parse cfg u n o t ns bytes = Some (ty, sfx, id, origin) -> id = ns ++ ":" ++ sfx.
Proof. exact parse_reports_id. Qed.
Print Assumptions C07_parse_reports_id.

(* the window handed to the time validator is (from, getAnchorUntil(from, until)) *)
Theorem C07_time_validator_consulted : forall cfg u n t m p,
  parse_update cfg u n t m false = Some p ->
  exists f un, p_time_args p = Some (f, anchor_until_p cfg f un) /\ t f (anchor_until_p cfg f un) = true.
Proof. exact update_time_args. Qed.
Print Assumptions C07_time_validator_consulted.

(* a deactivate is accepted only if the signed suffix equals the request's suffix *)
Theorem C07_deactivate_suffix_bound : forall cfg t m batch p,
  parse_deactivate cfg t m batch = Some p ->
  exists sx sd, parse_signed_deactivate cfg sd = Some sx /\ sx_suffix sx = p_suffix p.
Proof. exact deactivate_suffix_bound. Qed.
Print Assumptions C07_deactivate_suffix_bound.
