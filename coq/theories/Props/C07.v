(* C07 - The parser accepts exactly what the protocol allows and reports it faithfully. *)
From Coq Require Import ZArith NArith String List Bool.
From Sidetree Require Import Json.Json Json.Parse Sidetree.Protocol Sidetree.Window Sidetree.Parser Sidetree.Rules.
Import ListNotations.
Open Scope string_scope.

(* the size gate is exact at the boundary and comes before anything else *)
Theorem C07_size_gate : forall cfg u n o t bytes batch,
  (P_MaxOperationSize cfg < Z.of_nat (String.length bytes))%Z -> parse_operation cfg u n o t bytes batch = None.
Proof. exact size_gate. Qed.
Print Assumptions C07_size_gate.

(* what an accepted request reports: namespaced id, and for update/recover/deactivate the
   request's own did suffix *)
Theorem C07_parse_reports_id : forall cfg u n o t ns bytes ty sfx id origin,
  parse cfg u n o t ns bytes = Some (ty, sfx, id, origin) -> id = ns ++ ":" ++ sfx.
Proof. exact parse_reports_id. Qed.
Print Assumptions C07_parse_reports_id.

(* the window handed to the time validator is (from, getAnchorUntil(from, until)) *)
Theorem C07_time_validator_consulted : forall cfg u n t m p,
  parse_update cfg u n t m false = Some p ->
  exists f un, p_time_args p = Some (f, anchor_until_p cfg f un) /\ t f (anchor_until_p cfg f un) = true.
Proof. exact update_time_args. Qed.
Print Assumptions C07_time_validator_consulted.

(* a deactivate is accepted only if the signed suffix equals the request's suffix *)
Theorem C07_deactivate_suffix_bound : forall cfg t m batch p,
  parse_deactivate cfg t m batch = Some p ->
  exists sx sd, parse_signed_deactivate cfg sd = Some sx /\ sx_suffix sx = p_suffix p.
Proof. exact deactivate_suffix_bound. Qed.
Print Assumptions C07_deactivate_suffix_bound.

(* Outside batch mode a request is accepted if and only if it obeys the configured protocol.
   [obeys] (Sidetree/Rules.v) is the declarative rule set, one named proposition per clause of
   the property: hash_rule, headers_rule, signing_key_rule, nonce_rule, delta_rule,
   common_rule, signed_data_rule, and per operation type create_rules / update_rules /
   recover_rules / deactivate_rules (reveal value matches the signing key, next commitments
   differ from each other and from the current key's, deactivate's signed suffix equals the
   request's, validators consulted with the signed window / origin).  The right-hand side also
   fixes what is reported: [p] is determined by the request. *)
Theorem C07_accept_iff_rules : forall cfg u n o t bytes p,
  parse_operation cfg u n o t bytes false = Some p <->
  (Z.of_nat (String.length bytes) <= P_MaxOperationSize cfg)%Z /\
  exists m, parse_json bytes = Some (JObj m) /\ obeys cfg u n o t m p.
Proof. exact accept_iff_rules. Qed.
Print Assumptions C07_accept_iff_rules.

Theorem C07_update_accept_iff : forall cfg u n t m p, parse_update cfg u n t m false = Some p <-> update_rules cfg u n t m p.
Proof. exact update_accept_iff. Qed.
Print Assumptions C07_update_accept_iff.

Theorem C07_recover_accept_iff : forall cfg u n o t m p, parse_recover cfg u n o t m false = Some p <-> recover_rules cfg u n o t m p.
Proof. exact recover_accept_iff. Qed.
Print Assumptions C07_recover_accept_iff.

Theorem C07_deactivate_accept_iff : forall cfg t m p, parse_deactivate cfg t m false = Some p <-> deactivate_rules cfg t m p.
Proof. exact deactivate_accept_iff. Qed.
Print Assumptions C07_deactivate_accept_iff.

Theorem C07_create_accept_iff : forall cfg u n o m p, parse_create cfg u n o m false = Some p <-> create_rules cfg u n o m p.
Proof. exact create_accept_iff. Qed.
Print Assumptions C07_create_accept_iff.

(* the atomic rules say what the property says *)
Theorem C07_hash_rule : forall cfg mh, validate_multihash cfg mh = true <->
  (Z.of_nat (String.length mh) <= P_MaxOperationHashLength cfg)%Z /\ exists c, Hashing.mh_code mh = Some c /\ In c (algs cfg).
Proof. exact validate_multihash_iff. Qed.
Print Assumptions C07_hash_rule.

Theorem C07_headers_rule : forall cfg h, validate_headers cfg h = true <-> headers_rule cfg h.
Proof. exact validate_headers_iff. Qed.
Print Assumptions C07_headers_rule.

Theorem C07_delta_rule : forall cfg u n od, validate_delta cfg u n od = true <-> delta_rule cfg u n od.
Proof. exact validate_delta_iff. Qed.
Print Assumptions C07_delta_rule.
