(* C01 - Resolved state is the Sidetree state-machine fold of the operation history. *)
From Coq Require Import ZArith Bool List String.
From Sidetree Require Import Json.Json Sidetree.Protocol Sidetree.Window Sidetree.Composer Sidetree.Applier Sidetree.ValidatorJequiv
     Sidetree.ComposerOrder Sidetree.JsonPatchOrder Sidetree.ComposerOrderAll Sidetree.ApplierOrder.
Import ListNotations.
Open Scope Z_scope.

(* One step of the code-shaped mirror is the step the Sidetree rules prescribe. *)
Theorem C01_apply_refines_spec : forall cfg compose a rm,
  apply cfg compose a rm = spec_apply cfg compose a rm.
Proof. exact apply_refines_spec. Qed.
Print Assumptions C01_apply_refines_spec.

(* Folding any finite history through the applier (a refused operation leaving the previous
   state in force) yields exactly the state-machine fold.  Unbounded in the history. *)
Theorem C01_run_refines_spec : forall cfg compose hist rm,
  run cfg compose rm hist = spec_run cfg compose rm hist.
Proof. exact run_refines_spec. Qed.
Print Assumptions C01_run_refines_spec.

Theorem C01_refused_keeps_state : forall cfg compose rm a,
  apply cfg compose a rm = None -> step cfg compose rm a = rm.
Proof. exact refused_keeps_state. Qed.
Print Assumptions C01_refused_keeps_state.

Theorem C01_create_only_on_empty : forall cfg compose a rm rm',
  a_type a = TCreate -> apply cfg compose a rm = Some rm' -> rm_doc rm = None.
Proof. exact create_only_on_empty. Qed.
Print Assumptions C01_create_only_on_empty.

Theorem C01_noncreate_needs_existing : forall cfg compose a rm rm',
  a_type a <> TCreate -> apply cfg compose a rm = Some rm' -> rm_doc rm <> None.
Proof. exact noncreate_needs_existing. Qed.
Print Assumptions C01_noncreate_needs_existing.

Theorem C01_accepted_result_has_doc : forall cfg compose a rm rm',
  apply cfg compose a rm = Some rm' -> rm_doc rm' <> None.
Proof. exact accepted_result_has_doc. Qed.
Print Assumptions C01_accepted_result_has_doc.

Theorem C01_bookkeeping_follows_accepted : forall cfg compose a rm rm',
  apply cfg compose a rm = Some rm' ->
  rm_last_time rm' = a_time a /\ rm_last_num rm' = a_num a /\ rm_last_ver rm' = a_ver a /\
  rm_version rm' = a_canon a /\
  rm_published rm' = rm_published rm /\ rm_unpublished rm' = rm_unpublished rm.
Proof. exact bookkeeping_follows_accepted. Qed.
Print Assumptions C01_bookkeeping_follows_accepted.

Theorem C01_deactivate_clears : forall cfg compose a rm rm',
  a_type a = TDeactivate -> apply cfg compose a rm = Some rm' ->
  rm_doc rm' = Some [] /\ rm_update_c rm' = ""%string /\ rm_recovery_c rm' = ""%string /\ rm_deactivated rm' = true.
Proof. exact deactivate_clears. Qed.
Print Assumptions C01_deactivate_clears.

(* Non-vacuity: a concrete create -> degraded update -> recover history with the real composer
   mirror; the recover resets anchor origin and canonical reference. *)
Definition ex_cfg : protocol :=
  Build_protocol 1 [18] 2000 20000 100 10000 100 "GZIP" 1000000 2500000 1100000 10000000
    ["replace"%string] ["ES256"%string] ["P-256"%string] 300 16 3.
Definition ex_view (uc rc : string) (o : json) (f u : Z) (ps : list json) : opview :=
  {| v_parse_ok := true; v_signed_ok := true; v_sig_ok := true; v_suffix_ok := true; v_delta_hash_ok := true;
     v_delta_valid := true; v_update_c := uc; v_recovery_c := rc; v_origin := o; v_from := f; v_until := u; v_patches := ps |}.
(* The resolved state does not depend on how the members of any request were ordered: histories whose
   operations differ only in the member order of patches and anchor origins (no member named twice;
   order_blind: ietf-json-patches without `test` operations), folded over states that differ only
   so, give states that differ only so.  op_rel / rm_rel: every other field equal. *)
Theorem C01_resolution_member_order : forall cfg hist hist' rm rm',
  Forall2 op_rel hist hist' -> rm_rel rm rm' -> Forall (fun a => Forall order_blind (v_patches (a_view a))) hist ->
  rm_rel (run cfg apply_patches rm hist) (run cfg apply_patches rm' hist').
Proof. exact run_member_order. Qed.
Print Assumptions C01_resolution_member_order.

Definition ex_replace : json :=
  JObj [("action", JStr "replace"); ("document", JObj [("publicKeys", JArr [JObj [("id", JStr "k1")]])])]%string.
Definition ex_hist : list anchored :=
  [ Build_anchored TCreate 10 1 0 "ref1" ["e1"%string] (ex_view "u1" "r1" (JStr "o1") 0 0 [ex_replace]);
    Build_anchored TUpdate 20 2 0 "ref2" [] (ex_view "u2" "" JNull 100 0 [ex_replace]);   (* out of window: early *)
    Build_anchored TRecover 30 3 1 "ref3" ["e3"%string] (ex_view "u3" "r3" (JStr "o3") 0 0 [ex_replace]) ]%string.
Example C01_nonvacuous :
  let final := run ex_cfg apply_patches (empty_rm [] []) ex_hist in
  rm_update_c final = "u3"%string /\ rm_recovery_c final = "r3"%string /\ rm_origin final = JStr "o3" /\
  rm_canon final = "ref3"%string /\ rm_created final = 10 /\ rm_updated final = 30 /\ rm_doc final <> None /\
  rm_update_c (run ex_cfg apply_patches (empty_rm [] []) (firstn 2 ex_hist)) = "u2"%string.
Proof. vm_compute. repeat split; try reflexivity. discriminate. Qed.
