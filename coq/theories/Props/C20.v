(* C20 - Shared components are safe for concurrent use.
   Registries: theorems over an interleaving semantics in which map accesses are unconditional
   (Sidetree/Conc.v), for any number of threads and any schedule; the lock programs are
   regenerated from the source (Agree/AgreeStruct.v).  Stateless components: no method writes a
   receiver field or a package-level variable (regenerated write-set).  From "no race in the
   model" to the Go program: Go's DRF-SC guarantee (trusted); the race detector and the stress
   comparison support this by testing and are labelled so. *)
From Coq Require Import String List Bool.
From Sidetree Require Import Sidetree.Conc.
From Sidetree Require Import Agree.AgreeStruct.
Import ListNotations.
Open Scope string_scope.

Theorem C20_no_race : forall s0 s, initial s0 -> reachable s0 s -> ~ racy s.
Proof. exact no_race. Qed.
Print Assumptions C20_no_race.

Theorem C20_write_section_exclusive : forall s0 s i j ti tj,
  initial s0 -> reachable s0 s -> i <> j ->
  nth_error (threads s) i = Some ti -> nth_error (threads s) j = Some tj ->
  th_mode ti = Writing -> th_mode tj = Idle.
Proof. exact write_section_exclusive. Qed.
Print Assumptions C20_write_section_exclusive.

(* any sequence of well-locked methods is an admissible thread program *)
Theorem C20_methods_admissible : forall ms, forallb well_locked ms = true -> idle_shape (concat ms).
Proof. exact methods_idle. Qed.
Print Assumptions C20_methods_admissible.

(* the methods of both registries, as they are in the source now, are well locked, and Register
   checks and inserts inside one write section *)
Theorem C20_registry_methods_well_locked :
  forallb (fun p => well_locked (snd p)) SidetreeGen.GenStruct.gen_lock_programs = true.
Proof. exact lock_programs_well_locked. Qed.
Print Assumptions C20_registry_methods_well_locked.

(* stateless components: no writes to shared state *)
Theorem C20_no_shared_writes : SidetreeGen.GenStruct.gen_global_writes = [].
Proof. exact global_writes_agree. Qed.
Print Assumptions C20_no_shared_writes.

(* negative control: without the lock the semantics does reach a race *)
Example C20_semantics_can_race :
  racy {| writer := None; readers := [];
          threads := [{| th_mode := Idle; th_prog := [MapWrite] |}; {| th_mode := Idle; th_prog := [MapRead] |}] |}.
Proof. exact racy_without_lock. Qed.
