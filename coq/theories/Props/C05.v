(* C05 - Canonicalization produces the unique RFC 8785 (JCS) form.

   Proved for every JSON tree (strings and member names arbitrary byte strings, arbitrary
   nesting): members come out strictly increasing in UTF-16 code-unit order and are a
   permutation of the input members; two names with the same UTF-16 image are refused; the
   output does not depend on member order at any depth; the output parses back to the same
   value (so it "denotes the same JSON value"), is a fixed point of Transform, and two values
   with the same canonical bytes are the same value.  The last three are stated for trees whose
   number tokens are canonical ([wfnum]); the ES6 number layout emits only such tokens
   (C05_number_tokens_canonical), so Transform is idempotent on its whole domain
   (C05_transform_idempotent).  Outside the model: float64 -> shortest decimal digits for
   literals beyond the exact class (strconv; oracle in the correspondence), and invariance of
   the parser under whitespace / escape / number spelling (correspondence). *)
From Coq Require Import NArith ZArith String Ascii List Bool Sorting.Sorted Sorting.Permutation.
From Sidetree Require Import Json.Json Json.Utf Json.Es6 Json.Jcs Json.Parse Json.JcsProps Json.JcsRoundTrip Json.Es6Props Json.TransformIdem.
Import ListNotations.
Open Scope string_scope.

(* members ordered by UTF-16 code units, each exactly once *)
Theorem C05_members_sorted m out :
  jcs (JObj m) = Some out ->
  exists es sorted, entries_of m = Some es /\ StronglySorted elt sorted /\ Permutation es sorted /\
                    out = "{" ++ join "," (map print_entry sorted) ++ "}".
Proof. exact (jcs_obj_sorted m out). Qed.
Print Assumptions C05_members_sorted.

Theorem C05_order_is_strict_total a b :
  (units_cmp a b = Eq <-> a = b) /\ units_cmp b a = CompOpp (units_cmp a b) /\
  (forall c, units_cmp a b = Lt -> units_cmp b c = Lt -> units_cmp a c = Lt).
Proof. exact (conj (units_cmp_eq a b) (conj (units_cmp_antisym a b) (units_cmp_lt_trans a b))). Qed.
Print Assumptions C05_order_is_strict_total.

Theorem C05_duplicate_names_refused m out : jcs (JObj m) = Some out -> NoDup (map (fun kv => sort_key (fst kv)) m).
Proof. exact (jcs_obj_distinct_names m out). Qed.
Print Assumptions C05_duplicate_names_refused.

(* byte-identical for all member orders, at every depth *)
Theorem C05_same_value_same_bytes a b : jequiv a b -> jcs a = jcs b.
Proof. exact (jcs_canonical a b). Qed.
Print Assumptions C05_same_value_same_bytes.

Theorem C05_member_order_irrelevant m1 m2 out : Permutation m1 m2 -> jcs (JObj m1) = Some out -> jcs (JObj m2) = Some out.
Proof. exact (jcs_member_order m1 m2 out). Qed.
Print Assumptions C05_member_order_irrelevant.

(* the output denotes the input value *)
Theorem C05_output_denotes_input v out : jcs v = Some out -> wfnum v -> exists v', parse_json out = Some v' /\ jequiv v v' /\ wfnum v'.
Proof. exact (jcs_parse_roundtrip v out). Qed.
Print Assumptions C05_output_denotes_input.

(* the output is a fixed point of canonicalization *)
Theorem C05_fixed_point v out : jcs v = Some out -> wfnum v -> is_container v = true -> transform out = TOk out.
Proof. exact (transform_fixed_point v out). Qed.
Print Assumptions C05_fixed_point.

(* equal bytes only for equal values *)
Theorem C05_same_bytes_same_value a b out : jcs a = Some out -> jcs b = Some out -> wfnum a -> wfnum b -> jequiv a b.
Proof. exact (jcs_injective a b out). Qed.
Print Assumptions C05_same_bytes_same_value.

(* every string round-trips through its minimal escaping *)
Theorem C05_string_escaping_roundtrip s rest :
  parse_string_body (String.length (escape_body s ++ String """" rest) + 1) (escape_body s ++ String """" rest) = Some (s, rest).
Proof. exact (quote_parse s rest). Qed.
Print Assumptions C05_string_escaping_roundtrip.

(* every token the ES6 number layout emits is canonical (a valid literal made of number
   characters that the layout maps to itself): parse_number inverts es6_layout *)
Theorem C05_number_tokens_canonical t t' : es6_normalise t = Some t' -> canon_tok t' = true.
Proof. exact (es6_normalise_canonical t t'). Qed.
Print Assumptions C05_number_tokens_canonical.

Theorem C05_layout_parses_back neg sig n :
  sig_ok sig -> (-1000 <= n <= 1000)%Z -> parse_number (es6_layout neg sig n) = Some (neg, sig, n).
Proof. exact (layout_parse neg sig n). Qed.
Print Assumptions C05_layout_parses_back.

(* Transform is idempotent on every input it accepts (model domain: numbers of the exact class) *)
Theorem C05_transform_idempotent s out : transform s = TOk out -> transform out = TOk out.
Proof. exact (transform_idempotent s out). Qed.
Print Assumptions C05_transform_idempotent.

(* non-vacuity: a tree with canonical numbers whose canonical form is not its input order *)
Example C05_example :
  let v := JObj [("b", JNum "1.5"); ("a", JArr [JNum "1e+21"; JNum "-0.000001"; JStr "x"])] in
  wfnum v /\ jcs v = Some "{""a"":[1e+21,-0.000001,""x""],""b"":1.5}" /\
  transform "{""a"":[1e+21,-0.000001,""x""],""b"":1.5}" = TOk "{""a"":[1e+21,-0.000001,""x""],""b"":1.5}".
Proof. split; [repeat constructor|]. vm_compute. split; reflexivity. Qed.

(* Concrete anchor: the RFC 8785 sorting example keys order by UTF-16 code units. *)
Example C05_transform_vectors :
  transform "{""€"":""Euro Sign"",""\r"":""Carriage Return"",""דּ"":""Hebrew"",""1"":""One"",""😀"":""Emoji"",""\u0080"":""Control"",""ö"":""Latin""}"
  = transform "{""\r"":""Carriage Return"",""1"":""One"",""\u0080"":""Control"",""ö"":""Latin"",""€"":""Euro Sign"",""😀"":""Emoji"",""דּ"":""Hebrew""}"
  /\ transform "[1E21, 1e-7, -0, 1.50, 0.000001]" = TOk "[1e+21,1e-7,0,1.5,0.000001]".
Proof. vm_compute. split; reflexivity. Qed.
