(* C05 - Canonicalization produces the unique RFC 8785 (JCS) form.  (theorems to be extended) *)
From Coq Require Import NArith String List Bool.
From Sidetree Require Import Json.Json Json.Utf Json.Es6 Json.Jcs Json.Parse.
Import ListNotations.
Open Scope string_scope.

(* Concrete anchor: the RFC 8785 sorting example keys order by UTF-16 code units. *)
Example C05_transform_vectors :
  transform "{""€"":""Euro Sign"",""\r"":""Carriage Return"",""דּ"":""Hebrew"",""1"":""One"",""😀"":""Emoji"",""\u0080"":""Control"",""ö"":""Latin""}"
  = transform "{""\r"":""Carriage Return"",""1"":""One"",""\u0080"":""Control"",""ö"":""Latin"",""€"":""Euro Sign"",""😀"":""Emoji"",""דּ"":""Hebrew""}"
  /\ transform "[1E21, 1e-7, -0, 1.50, 0.000001]" = TOk "[1e+21,1e-7,0,1.5,0.000001]".
Proof. vm_compute. split; reflexivity. Qed.
