(* C13 - Patch validation enforces the documented key, service and URI constraints.
   Relative to the net/url oracle (Section variables uri_ok / url_norm). *)
From Coq Require Import NArith Arith String List Bool.
From Sidetree Require Import Json.Json Json.JcsProps Sidetree.Composer Sidetree.Validator Sidetree.ValidatorJequiv.
Import ListNotations.

(* ids: 1-50 characters of [A-Za-z0-9_-] *)
Theorem C13_id_ok_iff : forall id, validate_id id = id_ok id.
Proof. exact validate_id_iff. Qed.
Print Assumptions C13_id_ok_iff.

(* public keys: the code's sequential checks accept exactly the keys meeting every constraint,
   with pairwise distinct ids *)
Theorem C13_public_keys_iff : forall ks, validate_public_keys [] ks = keys_ok ks.
Proof. exact validate_public_keys_iff. Qed.
Print Assumptions C13_public_keys_iff.

Theorem C13_services_iff : forall uri_ok ss, validate_services uri_ok [] ss = services_ok uri_ok ss.
Proof. exact validate_services_iff. Qed.
Print Assumptions C13_services_iff.

(* every string entry of an endpoint list is checked, whatever precedes it *)
Theorem C13_endpoint_list_every_entry : forall uri_ok l u,
  validate_endpoint uri_ok (Some (JArr l)) = true -> In (JStr u) l -> validate_uri uri_ok u = true.
Proof. exact endpoint_list_every_entry. Qed.
Print Assumptions C13_endpoint_list_every_entry.

(* the finite key type x purpose matrix: exhaustive over 7 types x 5 purposes *)
Theorem C13_key_type_purpose_matrix :
  forallb (fun ty => forallb (fun p =>
     Bool.eqb (validate_key_type_purpose [("type", JStr ty); ("purposes", JArr [JStr p])]%string) (matrix_expected ty p))
     purposes_all) ("UnknownType"%string :: key_types_general) = true.
Proof. exact key_type_purpose_matrix. Qed.
Print Assumptions C13_key_type_purpose_matrix.

Open Scope string_scope.
Example C13_nonvacuous :
  id_ok "a" = true /\ id_ok "" = false /\
  id_ok "01234567890123456789012345678901234567890123456789" = true /\
  id_ok "012345678901234567890123456789012345678901234567890" = false /\ id_ok "a b" = false /\
  keys_ok [[("id", JStr "k1"); ("type", JStr "JsonWebKey2020");
            ("publicKeyJwk", JObj [("kty", JStr "EC"); ("crv", JStr "P-256"); ("x", JStr "x")]);
            ("purposes", JArr [JStr "keyAgreement"])]] = true.
Proof. vm_compute. repeat split; reflexivity. Qed.

(* the verdict is a property of the patch as a JSON value: two patches that differ only in member
   order (at any depth; no object with a name twice) get the same verdict, for every action *)
Theorem C13_verdict_ignores_member_order : forall uri_ok url_norm v v',
  ndk v -> jequiv v v' -> validate_patch uri_ok url_norm v = validate_patch uri_ok url_norm v'.
Proof. intros uri_ok url_norm v v' N E. exact (validate_patch_rel uri_ok url_norm v v' (conj N E)). Qed.
Print Assumptions C13_verdict_ignores_member_order.
