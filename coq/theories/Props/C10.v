(* C10 - Patch composition follows the documented per-action semantics. *)
From Coq Require Import String List Bool.
From Sidetree Require Import Json.Json Sidetree.JsonPatch Sidetree.Composer Sidetree.Validator Sidetree.Frame
     Sidetree.ComposerProps Sidetree.Rfc6902 Sidetree.Conformance Sidetree.ConformanceArr Sidetree.ValidatorJequiv Sidetree.ComposerOrder Sidetree.JsonPatchOrder Sidetree.ComposerOrderAll.
Import ListNotations.
Open Scope string_scope.

(* applying a list is the left fold of the per-patch function (failure absorbing) *)
Theorem C10_apply_patches_is_fold : forall doc ps,
  apply_patches doc ps =
  fold_left (fun acc p => match acc with Some d => apply_patch d p | None => None end) ps (Some doc).
Proof. exact apply_patches_is_fold. Qed.
Print Assumptions C10_apply_patches_is_fold.

(* add-*: existing order kept, same-id entries replaced in place, new entries appended *)
Theorem C10_add_entries_ids : forall existing added,
  map entry_id (add_entries existing added) =
  (map entry_id existing ++ filter (fun i => negb (mem_str i (map entry_id existing))) (map entry_id added))%list.
Proof. exact add_entries_ids. Qed.
Print Assumptions C10_add_entries_ids.

(* remove-*: delete by id; unknown ids are ignored *)
Theorem C10_remove_entries_ids : forall existing ids,
  map entry_id (remove_entries existing ids) = filter (fun i => negb (mem_str i ids)) (map entry_id existing).
Proof. exact remove_entries_ids. Qed.
Theorem C10_remove_unknown_ignored : forall existing ids,
  (forall e, In e existing -> mem_str (entry_id e) ids = false) -> remove_entries existing ids = existing.
Proof. exact remove_entries_unknown. Qed.
Print Assumptions C10_remove_unknown_ignored.

(* also-known-as: ordered set union / difference *)
Theorem C10_add_aka : forall doc uris,
  string_array (lookup "alsoKnownAs" (apply_add_aka doc (JArr (map JStr uris)))) =
  let existing := string_array (lookup "alsoKnownAs" doc) in
  fold_left (fun acc u => if mem_str u existing then acc else (acc ++ [u])%list) uris existing.
Proof. exact add_aka_spec. Qed.
Theorem C10_remove_aka : forall doc uris,
  string_array (lookup "alsoKnownAs" (apply_remove_aka doc (JArr (map JStr uris)))) =
  filter (fun u => negb (mem_str u uris)) (string_array (lookup "alsoKnownAs" doc)).
Proof. exact remove_aka_spec. Qed.
Print Assumptions C10_add_aka.

(* replace discards the whole document *)
Theorem C10_replace_installs_exactly : forall m,
  apply_replace (JObj m) = Some [("publicKey", node (lookup "publicKeys" m)); ("service", node (lookup "services" m))].
Proof. exact replace_installs_exactly. Qed.

(* unique ids are preserved by any list of validated patches of all eight actions *)
Theorem C10_unique_ids_preserved : forall uri_ok url_norm ps doc doc',
  ids_unique doc = true -> forallb (validate_patch uri_ok url_norm) ps = true ->
  apply_patches doc ps = Some doc' -> ids_unique doc' = true.
Proof. exact unique_ids_preserved. Qed.
Print Assumptions C10_unique_ids_preserved.

(* ietf-json-patch vs RFC 6902: the pinned library deviates; witnesses (replayed on the
   implementation as known findings, see known_findings.json) *)
Definition dev_doc : json := JObj [("a", JObj [("x", JNum "1")]); ("arr", JArr [JNum "1"; JNum "2"; JNum "3"])].
Theorem C10_jsonpatch_is_rfc_refuted :
  (* replace of a missing member creates it *)
  (rfc_apply_op dev_doc (JObj [("op", JStr "replace"); ("path", JStr "/missing"); ("value", JNum "1")]) = None /\
   mirror_step dev_doc (JObj [("op", JStr "replace"); ("path", JStr "/missing"); ("value", JNum "1")]) <> None) /\
  (* copy onto an array index overwrites instead of inserting *)
  (opt_json_equiv (rfc_apply_op dev_doc (JObj [("op", JStr "copy"); ("from", JStr "/a"); ("path", JStr "/arr/1")]))
                  (mirror_step dev_doc (JObj [("op", JStr "copy"); ("from", JStr "/a"); ("path", JStr "/arr/1")])) = false) /\
  (* negative index accepted by remove *)
  (rfc_apply_op dev_doc (JObj [("op", JStr "remove"); ("path", JStr "/arr/-1")]) = None /\
   mirror_step dev_doc (JObj [("op", JStr "remove"); ("path", JStr "/arr/-1")]) <> None) /\
  (* test passes on a superset object *)
  (rfc_apply_op dev_doc (JObj [("op", JStr "test"); ("path", JStr "/a"); ("value", JObj [("x", JNum "1"); ("y", JNum "2")])]) = None /\
   mirror_step dev_doc (JObj [("op", JStr "test"); ("path", JStr "/a"); ("value", JObj [("x", JNum "1"); ("y", JNum "2")])]) <> None).
Proof. vm_compute. repeat split; try reflexivity; discriminate. Qed.
Print Assumptions C10_jsonpatch_is_rfc_refuted.

(* ... and where the library does follow RFC 6902: add, remove, and replace of an existing
   member, through object members only (every value on the way a non-null object) *)
Theorem C10_add_conforms : forall doc op path x,
  lookup "path" op = Some (JStr path) -> member_path doc path ->
  lookup "op" op = Some (JStr "add") -> lookup "value" op = Some x ->
  conv (apply_op doc (JObj op)) = rfc_apply_op doc (JObj op).
Proof. intros doc op path x Hp Hm. exact (add_conforms doc op path Hp Hm x). Qed.
Print Assumptions C10_add_conforms.

Theorem C10_remove_conforms : forall doc op path,
  lookup "path" op = Some (JStr path) -> member_path doc path -> lookup "op" op = Some (JStr "remove") ->
  conv (apply_op doc (JObj op)) = rfc_apply_op doc (JObj op).
Proof. exact remove_conforms. Qed.
Print Assumptions C10_remove_conforms.

Theorem C10_replace_conforms : forall doc op path x d,
  lookup "path" op = Some (JStr path) -> member_path doc path ->
  lookup "op" op = Some (JStr "replace") -> lookup "value" op = Some x ->
  rfc_apply_op doc (JObj op) = Some d -> conv (apply_op doc (JObj op)) = Some d.
Proof. intros doc op path x d Hp Hm. exact (replace_conforms doc op path Hp Hm x d). Qed.
Print Assumptions C10_replace_conforms.

(* ... and for elements of arrays (reached through object members) addressed in the RFC's own index
   spelling - digits without a leading zero, or "-" for add: insertion before the index, at the
   end for "-" and for index = length, an error beyond; removal of the element at the index *)
Theorem C10_add_conforms_array : forall doc op path x,
  lookup "path" op = Some (JStr path) -> element_path doc path ->
  lookup "op" op = Some (JStr "add") -> lookup "value" op = Some x ->
  conv (apply_op doc (JObj op)) = rfc_apply_op doc (JObj op).
Proof. intros doc op path x Hp He. exact (add_conforms_array doc op path Hp He x). Qed.
Print Assumptions C10_add_conforms_array.

Theorem C10_remove_conforms_array : forall doc op path i,
  lookup "path" op = Some (JStr path) -> element_path doc path ->
  lookup "op" op = Some (JStr "remove") ->
  rfc_index (decode_key (last (tl (split_path path)) "")) = Some i ->
  conv (apply_op doc (JObj op)) = rfc_apply_op doc (JObj op).
Proof. intros doc op path i Hp He. exact (remove_conforms_array doc op path Hp He i). Qed.
Print Assumptions C10_remove_conforms_array.

Theorem C10_replace_conforms_array : forall doc op path i x,
  lookup "path" op = Some (JStr path) -> element_path doc path ->
  lookup "op" op = Some (JStr "replace") -> lookup "value" op = Some x ->
  rfc_index (decode_key (last (tl (split_path path)) "")) = Some i ->
  conv (apply_op doc (JObj op)) = rfc_apply_op doc (JObj op).
Proof. intros doc op path i x Hp He. exact (replace_conforms_array doc op path Hp He i x). Qed.
Print Assumptions C10_replace_conforms_array.

Example C10_nonvacuous :
  let doc := [("publicKey", JArr [JObj [("id", JStr "k1"); ("v", JNum "1")]; JObj [("id", JStr "k2")]])] in
  apply_patches doc [JObj [("action", JStr "add-public-keys");
                           ("publicKeys", JArr [JObj [("id", JStr "k3")]; JObj [("id", JStr "k1"); ("v", JNum "2")]])];
                     JObj [("action", JStr "remove-public-keys"); ("ids", JArr [JStr "k2"; JStr "nope"])]]
  = Some [("publicKey", JArr [JObj [("id", JStr "k1"); ("v", JNum "2")]; JObj [("id", JStr "k3")]])].
Proof. vm_compute. reflexivity. Qed.

(* the order_blind actions do not see member order: documents and patch lists equal up to the order
   of object members at any depth (and without a member named twice) compose to documents equal
   up to member order, or both fail.  (ietf-json-patch is outside this theorem.) *)
Theorem C10_dedicated_actions_member_order : forall ps ps' doc doc',
  objrel doc doc' -> Forall2 vrel ps ps' -> Forall order_blind ps ->
  opt_objrel (apply_patches doc ps) (apply_patches doc' ps').
Proof. exact apply_patches_member_order_all. Qed.
Print Assumptions C10_dedicated_actions_member_order.
