(* C09 - Anchoring window: effective iff from <= t <= until, default from + time delta.
   This file contains only property theorems, each closed by [exact] of a lemma proved in the
   model files, followed by Print Assumptions. *)
From Coq Require Import ZArith Bool List String Lia.
From Sidetree Require Import Base.GoInt Json.Json Sidetree.Protocol Sidetree.Window Sidetree.Applier.
Import ListNotations.
Open Scope Z_scope.

(* The applier's / parser's window test accepts exactly the declarative window. *)
Theorem C09_window_iff : forall delta from until t,
  window_domain delta from until t ->
  verify_range delta from until t = true <-> in_window delta from until t.
Proof. exact verify_range_iff. Qed.
Print Assumptions C09_window_iff.

(* Default expiry handed to the time validator: from + MaxOperationTimeDelta when only from is set. *)
Theorem C09_default_until : forall delta from until,
  0 <= delta < two63 -> in_i64 (from + delta) ->
  anchor_until delta from until = if andb (negb (from =? 0)) (until =? 0) then from + delta else until.
Proof. exact anchor_until_spec. Qed.
Print Assumptions C09_default_until.

(* Outside the no-wrap domain the code's behaviour is stated, not hidden. *)
Theorem C09_wrapped_time_refuses : forall delta from until t,
  two63 <= t < two64 -> 0 < from -> in_i64 from -> verify_range delta from until t = false.
Proof. exact verify_range_wrapped_time. Qed.
Print Assumptions C09_wrapped_time_refuses.

(* The window depends on no protocol parameter other than MaxOperationTimeDelta. *)
Theorem C09_param_independence : forall p q compose a rm,
  same_time_delta p q -> apply p compose a rm = apply q compose a rm.
Proof. exact apply_param_independence. Qed.
Print Assumptions C09_param_independence.

Theorem C09_update_out_of_window : forall cfg compose a rm rm',
  a_type a = TUpdate -> apply cfg compose a rm = Some rm' -> in_win cfg (a_view a) (a_time a) = false ->
  rm_doc rm' = rm_doc rm /\ rm_update_c rm' = v_update_c (a_view a).
Proof. exact update_out_of_window. Qed.
Print Assumptions C09_update_out_of_window.

Theorem C09_recover_out_of_window : forall cfg compose a rm rm',
  a_type a = TRecover -> apply cfg compose a rm = Some rm' -> in_win cfg (a_view a) (a_time a) = false ->
  rm_doc rm' = Some [] /\ rm_recovery_c rm' = v_recovery_c (a_view a) /\
  rm_update_c rm' = (if delta_usable (a_view a) then v_update_c (a_view a) else ""%string).
Proof. exact recover_out_of_window. Qed.
Print Assumptions C09_recover_out_of_window.

Theorem C09_deactivate_out_of_window : forall cfg compose a rm,
  a_type a = TDeactivate -> in_win cfg (a_view a) (a_time a) = false -> apply cfg compose a rm = None.
Proof. exact deactivate_out_of_window. Qed.
Print Assumptions C09_deactivate_out_of_window.

Theorem C09_in_window_update_applies : forall cfg compose a rm doc d,
  a_type a = TUpdate -> rm_doc rm = Some doc -> accepted cfg a rm = true ->
  in_win cfg (a_view a) (a_time a) = true -> compose doc (v_patches (a_view a)) = Some d ->
  exists rm', apply cfg compose a rm = Some rm' /\ rm_doc rm' = Some d.
Proof. exact in_window_update_applies. Qed.
Print Assumptions C09_in_window_update_applies.

(* Non-vacuity: concrete triples inside the domain, on both sides of each boundary. *)
Example C09_nonvacuous :
  window_domain 300 1000 0 1300 /\ verify_range 300 1000 0 1300 = true /\
  window_domain 300 1000 0 1301 /\ verify_range 300 1000 0 1301 = false /\
  window_domain 300 1000 1200 999 /\ verify_range 300 1000 1200 999 = false /\
  window_domain 300 0 0 5 /\ verify_range 300 0 0 5 = true.
Proof. unfold window_domain, in_i64, two63. repeat split; try reflexivity; try lia. Qed.
