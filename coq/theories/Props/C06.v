(* C06 - Model hashes are content addresses: equal iff the JSON values are equal.
   All theorems are generic in the two hash functions (Section hypotheses: output lengths 32 and
   64 bytes); the executable instance uses the Gallina SHA-256/512 whose lengths are proved. *)
From Coq Require Import NArith String List Bool.
From Sidetree Require Import Base.Sha2 Base.Base64url Base.Multihash Json.Json Json.Jcs Sidetree.Hashing.
Import ListNotations.

Section C06.
  Variable h256 h512 : string -> string.
  Hypothesis h256_len : forall s, String.length (h256 s) = 32%nat.
  Hypothesis h512_len : forall s, String.length (h512 s) = 64%nat.

  (* multihash(code, H(JCS(value))), base64url: the definition *)
  Theorem C06_calc_def : forall v code c h,
    jcs v = Some c -> hash_fn h256 h512 code = Some h ->
    calc_model_mh h256 h512 v code = Some (b64_encode (mh_encode code (h c))).
  Proof. exact (calc_def h256 h512). Qed.

  (* an error for any code other than SHA-256 / SHA-512 *)
  Theorem C06_calc_supported : forall v code c,
    jcs v = Some c -> (exists s, calc_model_mh h256 h512 v code = Some s) <-> code = 18%N \/ code = 19%N.
  Proof. exact (calc_supported h256 h512). Qed.

  (* the reported code agrees with the prefix the hash was computed with *)
  Theorem C06_code_of_calc : forall v code s,
    calc_model_mh h256 h512 v code = Some s -> get_mh_code s = Some code.
  Proof. exact (code_of_calc h256 h512 h256_len h512_len). Qed.

  Theorem C06_valid_of_calc : forall v code s,
    calc_model_mh h256 h512 v code = Some s -> is_valid_model_mh h256 h512 v s = true.
  Proof. exact (valid_of_calc h256 h512 h256_len h512_len). Qed.

  (* validation succeeds exactly when the supplied string is the hash of the value under the
     algorithm named in the string's own prefix *)
  Theorem C06_valid_iff : forall v s,
    is_valid_model_mh h256 h512 v s = true <->
    exists c, get_mh_code s = Some c /\ calc_model_mh h256 h512 v c = Some s.
  Proof. exact (valid_iff h256 h512). Qed.

  (* content addressing: equal canonical forms, or an explicit hash collision *)
  Theorem C06_valid_content : forall v w code s cv cw h,
    jcs v = Some cv -> jcs w = Some cw -> hash_fn h256 h512 code = Some h ->
    calc_model_mh h256 h512 w code = Some s -> is_valid_model_mh h256 h512 v s = true ->
    cv = cw \/ (cv <> cw /\ h cv = h cw).
  Proof. exact (valid_content h256 h512 h256_len h512_len). Qed.

  Theorem C06_computed_using_iff : forall s codes,
    is_computed_using s codes = true <-> exists c, get_mh_code s = Some c /\ In c codes.
  Proof. exact computed_using_iff. Qed.
End C06.
Print Assumptions C06_calc_def.
Print Assumptions C06_calc_supported.
Print Assumptions C06_code_of_calc.
Print Assumptions C06_valid_of_calc.
Print Assumptions C06_valid_iff.
Print Assumptions C06_valid_content.
Print Assumptions C06_computed_using_iff.

(* the executable SHA-2 satisfies the section hypotheses *)
Theorem C06_instance_lengths : (forall s, String.length (sha256 s) = 32%nat) /\ (forall s, String.length (sha512 s) = 64%nat).
Proof. exact (conj sha256_length sha512_length). Qed.
Print Assumptions C06_instance_lengths.

(* malformed encodings are rejected (decoder leniency stated, not hidden) *)
Example C06_malformed_rejected :
  get_mh_code "" = None /\ get_mh_code "E*" = None /\ get_mh_code "Eg" = None /\
  get_mh_code (b64_encode (string_of_bytes [18; 3; 1; 2]%N)) = None /\
  get_mh_code (b64_encode (string_of_bytes [18; 1; 1; 2]%N)) = None /\
  get_mh_code (b64_encode (string_of_bytes [18; 2; 1; 2]%N)) = Some 18%N.
Proof. vm_compute. repeat split; reflexivity. Qed.

Open Scope string_scope.
Example C06_nonvacuous :
  calc_mh (JObj [("b", JNum "1"); ("a", JStr "x")]) 18 = calc_mh (JObj [("a", JStr "x"); ("b", JNum "1")]) 18 /\
  valid_mh (JObj [("a", JStr "x"); ("b", JNum "1")]) "EiBgCkq1PHe9BjkaKFvBbUlxqXcnP1VqxNSHU4r9ErilLg" =
  match calc_mh (JObj [("a", JStr "x"); ("b", JNum "1")]) 18 with
  | Some s => String.eqb s "EiBgCkq1PHe9BjkaKFvBbUlxqXcnP1VqxNSHU4r9ErilLg" | None => false end.
Proof. vm_compute. split; reflexivity. Qed.
