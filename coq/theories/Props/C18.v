(* C18 - Resolution results expose every key, service and metadata item correctly. *)
From Coq Require Import ZArith NArith String List Bool Sorting.Sorted Sorting.Permutation.
From Sidetree Require Import Json.Json Sidetree.Protocol Sidetree.Composer Sidetree.Applier Sidetree.Transformer.
Import ListNotations.
Open Scope string_scope.

(* every internal key is emitted exactly once, in order, as DID#key-id (or #key-id under @base),
   controlled by the DID *)
Theorem C18_every_key_once : forall o did keys tks,
  map_opt (transform_key o did) keys = Some tks ->
  map (fun t => lookup "id" (fst t)) tks = map (fun pk => Some (JStr (object_id o did (entry_id pk)))) keys /\
  map (fun t => lookup "controller" (fst t)) tks = map (fun _ => Some (JStr did)) keys.
Proof. exact transform_keys_ids. Qed.
Print Assumptions C18_every_key_once.

(* the comparator is the lexicographic (time, number) order: a strict total order *)
Theorem C18_less_is_lexicographic : forall a b, op_less a b = true <-> key_lt a b.
Proof. exact op_less_iff. Qed.
Theorem C18_order_strict : (forall a, ~ key_lt a a) /\ (forall a b c, key_lt a b -> key_lt b c -> key_lt a c).
Proof. exact (conj key_lt_irrefl key_lt_trans). Qed.
Print Assumptions C18_less_is_lexicographic.

(* operations are listed in anchoring order: sorted, and a permutation of the input - for lists
   of any length *)
Theorem C18_ops_sorted : forall (A : Type) (key : A -> anchored_key) l,
  StronglySorted (fun a b => key_le (key a) (key b)) (sort_ops key l).
Proof. exact @sort_ops_sorted. Qed.
Theorem C18_ops_permutation : forall (A : Type) (key : A -> anchored_key) l, Permutation (sort_ops key l) l.
Proof. exact @sort_ops_perm. Qed.
Print Assumptions C18_ops_sorted.
Print Assumptions C18_ops_permutation.

(* Non-vacuity, incl. the pair that a non-lexicographic comparator gets wrong *)
Example C18_nonvacuous :
  map F_TransactionTime (sort_ops (fun k => k) [Build_anchored_key 2 1; Build_anchored_key 1 5; Build_anchored_key 1 2]) = [1; 1; 2]%Z /\
  map F_TransactionNumber (sort_ops (fun k => k) [Build_anchored_key 2 1; Build_anchored_key 1 5; Build_anchored_key 1 2]) = [2; 5; 1]%Z /\
  rfc3339 951782400 = "2000-02-29T00:00:00Z" /\ rfc3339 1735689599 = "2024-12-31T23:59:59Z" /\
  base58_encode "Hello World!" = "2NEpo7TZRRrLZSi2U" /\ base58_encode (String (Ascii.ascii_of_N 0) "a") = "12g".
Proof. vm_compute. repeat split; reflexivity. Qed.
