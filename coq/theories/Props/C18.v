(* C18 - Resolution results expose every key, service and metadata item correctly. *)
From Coq Require Import ZArith NArith String List Bool Sorting.Sorted Sorting.Permutation.
From Sidetree Require Import Json.Json Sidetree.Protocol Sidetree.JsonPatch Sidetree.Composer Sidetree.Applier Sidetree.Transformer Sidetree.TransformerProps.
Import ListNotations.
Open Scope string_scope.

(* every internal key is emitted exactly once, in order, as DID#key-id (or #key-id under @base),
   controlled by the DID *)
Theorem C18_every_key_once : forall o did keys tks,
  map_opt (transform_key o did) keys = Some tks ->
  map (fun t => lookup "id" (fst t)) tks = map (fun pk => Some (JStr (object_id o did (entry_id pk)))) keys /\
  map (fun t => lookup "controller" (fst t)) tks = map (fun _ => Some (JStr did)) keys.
Proof. exact transform_keys_ids. Qed.
Print Assumptions C18_every_key_once.

(* the comparator is the lexicographic (time, number) order: a strict total order *)
Theorem C18_less_is_lexicographic : forall a b, op_less a b = true <-> key_lt a b.
Proof. exact op_less_iff. Qed.
Theorem C18_order_strict : (forall a, ~ key_lt a a) /\ (forall a b c, key_lt a b -> key_lt b c -> key_lt a c).
Proof. exact (conj key_lt_irrefl key_lt_trans). Qed.
Print Assumptions C18_less_is_lexicographic.

(* operations are listed in anchoring order: sorted, and a permutation of the input - for lists
   of any length *)
Theorem C18_ops_sorted : forall (A : Type) (key : A -> anchored_key) l,
  StronglySorted (fun a b => key_le (key a) (key b)) (sort_ops key l).
Proof. exact @sort_ops_sorted. Qed.
Theorem C18_ops_permutation : forall (A : Type) (key : A -> anchored_key) l, Permutation (sort_ops key l) l.
Proof. exact @sort_ops_perm. Qed.
Print Assumptions C18_ops_sorted.
Print Assumptions C18_ops_permutation.

(* a key is referenced from exactly the relationships named by its purposes (once per mention) *)
Theorem C18_relationship_exact : forall o did keys purpose r,
  In r (relationship o did keys purpose) <->
  exists pk, In pk keys /\ In purpose (string_array (lookup "purposes" pk)) /\ r = JStr (object_id o did (entry_id pk)).
Proof. exact relationship_exact. Qed.
Print Assumptions C18_relationship_exact.

(* every service: qualified id, type, endpoint and all its further members *)
Theorem C18_service_members : forall o did sv,
  exists m, transform_service o did sv = JObj m /\
    lookup "id" m = Some (JStr (object_id o did (entry_id sv))) /\
    lookup "type" m = Some (JStr (string_entry (lookup "type" sv))) /\
    lookup "serviceEndpoint" m = Some (node (lookup "serviceEndpoint" sv)) /\
    (forall k v, In (k, v) sv -> k <> "id" -> k <> "type" -> k <> "serviceEndpoint" -> In (k, v) m).
Proof. exact service_members. Qed.
Print Assumptions C18_service_members.

(* one context per key type used: no context twice, none missing, none invented *)
Theorem C18_key_contexts_once : forall ctxs acc, NoDup acc ->
  NoDup (fold_left add_unique ctxs acc) /\ (forall c, In c (fold_left add_unique ctxs acc) <-> In c acc \/ In c ctxs).
Proof. exact key_contexts_once. Qed.
Print Assumptions C18_key_contexts_once.

(* published operations de-duplicated by canonical reference: one entry per reference, and it
   is the first one of the (sorted) list, i.e. the earliest anchoring *)
Theorem C18_dedup_nodup : forall (A : Type) (f : A -> string) l seen, NoDup (map f (dedup_by f seen l)).
Proof. exact @dedup_nodup. Qed.
Theorem C18_dedup_keeps_first : forall (A : Type) (f : A -> string) l seen x, In x l -> ~ In (f x) seen ->
  exists y pre post, l = (pre ++ y :: post)%list /\ f y = f x /\ (forall z, In z pre -> f z <> f x) /\ In y (dedup_by f seen l).
Proof. exact @dedup_keeps_first. Qed.
Print Assumptions C18_dedup_nodup.
Print Assumptions C18_dedup_keeps_first.

(* metadata reports the state's items as given *)
Theorem C18_metadata_items : forall rm info published,
  let md := metadata_of rm info published in
  lookup "canonicalId" md = option_map JStr (ti_canonical info) /\
  lookup "equivalentId" md = option_map (fun l => JArr (map JStr l)) (ti_equivalent info) /\
  lookup "deactivated" md = (if rm_deactivated rm then Some (JBool true) else None) /\
  lookup "created" md = (if published then Some (JStr (rfc3339 (rm_created rm))) else None) /\
  exists method, lookup "method" md = Some (JObj method) /\
    lookup "published" method = Some (JBool published) /\
    lookup "recoveryCommitment" method = (if String.eqb (rm_recovery_c rm) "" then None else Some (JStr (rm_recovery_c rm))) /\
    lookup "updateCommitment" method = (if String.eqb (rm_update_c rm) "" then None else Some (JStr (rm_update_c rm))) /\
    lookup "anchorOrigin" method = (match rm_origin rm with JNull => None | v => Some v end).
Proof. exact metadata_items. Qed.
Print Assumptions C18_metadata_items.

(* Non-vacuity, incl. the pair that a non-lexicographic comparator gets wrong *)
Example C18_nonvacuous :
  map F_TransactionTime (sort_ops (fun k => k) [Build_anchored_key 2 1; Build_anchored_key 1 5; Build_anchored_key 1 2]) = [1; 1; 2]%Z /\
  map F_TransactionNumber (sort_ops (fun k => k) [Build_anchored_key 2 1; Build_anchored_key 1 5; Build_anchored_key 1 2]) = [2; 5; 1]%Z /\
  rfc3339 951782400 = "2000-02-29T00:00:00Z" /\ rfc3339 1735689599 = "2024-12-31T23:59:59Z" /\
  base58_encode "Hello World!" = "2NEpo7TZRRrLZSi2U" /\ base58_encode (String (Ascii.ascii_of_N 0) "a") = "12g".
Proof. vm_compute. repeat split; reflexivity. Qed.
