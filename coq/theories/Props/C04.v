(* C04 - Commitment / reveal-value algebra links consecutive operations. *)
From Coq Require Import NArith String List Bool.
From Sidetree Require Import Base.Sha2 Base.Base64url Base.Multihash Json.Json Json.Jcs Sidetree.Hashing.
Import ListNotations.

Section C04.
  Variable h256 h512 : string -> string.
  Hypothesis h256_len : forall s, String.length (h256 s) = 32%nat.
  Hypothesis h512_len : forall s, String.length (h512 s) = 64%nat.

  (* deriving a commitment from a reveal value gives exactly that key's commitment *)
  Theorem C04_commitment_of_reveal : forall jwk code rv,
    reveal_value h256 h512 jwk code = Some rv ->
    commitment_from_reveal h256 h512 rv = commitment h256 h512 jwk code.
  Proof. exact (commitment_of_reveal h256 h512 h256_len h512_len). Qed.

  (* for both supported algorithms all three values exist and are linked *)
  Theorem C04_reveal_supported : forall jwk code data,
    jcs jwk = Some data -> (code = 18%N \/ code = 19%N) ->
    exists rv c, reveal_value h256 h512 jwk code = Some rv /\ commitment h256 h512 jwk code = Some c /\
                 commitment_from_reveal h256 h512 rv = Some c.
  Proof. exact (reveal_supported h256 h512 h256_len h512_len). Qed.

  (* keys whose canonical bytes differ have different commitments, unless a collision of the
     hash function (at the first or at the second level) is exhibited *)
  Theorem C04_commitment_binding : forall j1 j2 code d1 d2 h c,
    jcs j1 = Some d1 -> jcs j2 = Some d2 -> hash_fn h256 h512 code = Some h ->
    commitment h256 h512 j1 code = Some c -> commitment h256 h512 j2 code = Some c ->
    d1 = d2 \/ (d1 <> d2 /\ h d1 = h d2) \/ (h d1 <> h d2 /\ h (h d1) = h (h d2)).
  Proof. exact (commitment_binding h256 h512 h256_len h512_len). Qed.
End C04.
Print Assumptions C04_commitment_of_reveal.
Print Assumptions C04_reveal_supported.
Print Assumptions C04_commitment_binding.

Open Scope string_scope.
(* Non-vacuity: an Ed25519 JWK (empty y member present) under both algorithms *)
Definition ex_jwk : json := JObj [("kty", JStr "OKP"); ("crv", JStr "Ed25519"); ("x", JStr "abc"); ("y", JStr "")].
Example C04_nonvacuous :
  (match reveal ex_jwk 18 with Some rv => commit_of_reveal rv | None => None end) = commit ex_jwk 18 /\
  (match reveal ex_jwk 19 with Some rv => commit_of_reveal rv | None => None end) = commit ex_jwk 19 /\
  commit ex_jwk 18 <> None /\ commit ex_jwk 19 <> None /\ commit ex_jwk 17 = None.
Proof. vm_compute. repeat split; try reflexivity; discriminate. Qed.
