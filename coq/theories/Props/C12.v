(* C12 - Applying operations and patches never mutates inputs; failures are atomic.

   Proved here on the functional mirrors: failure atomicity (no partial document, no state with
   an error).  "Inputs are not mutated" is a statement about Go aliasing; in the value model it
   holds by construction, so it is decided by (a) the regenerated write-set of composer.go and
   operationapplier.go (Agree/AgreeStruct.v: every assignment target is rooted in a value
   allocated during the call) and (b) the harness's deep before/after snapshots and pointer
   identity probe on every generated call.  See DESIGN C12 for what remains partial. *)
From Coq Require Import ZArith Bool List String.
From Sidetree Require Import Json.Json Sidetree.Protocol Sidetree.Composer Sidetree.Applier Sidetree.ApplierAtomic.
Import ListNotations.

(* A patch list whose k-th patch fails yields no document at all, whatever precedes/follows. *)
Theorem C12_failing_patch_list_yields_nothing : forall doc ps1 p ps2 d,
  apply_patches doc ps1 = Some d -> apply_patch d p = None ->
  apply_patches doc (ps1 ++ p :: ps2) = None.
Proof. exact apply_patches_fails_at. Qed.
Print Assumptions C12_failing_patch_list_yields_nothing.

(* ApplyPatches is the left fold of the single-patch function with failure absorbing. *)
Theorem C12_apply_patches_is_fold : forall doc ps,
  apply_patches doc ps =
  fold_left (fun acc p => match acc with Some d => apply_patch d p | None => None end) ps (Some doc).
Proof. exact apply_patches_is_fold. Qed.
Print Assumptions C12_apply_patches_is_fold.

(* A refused operation yields no state and the caller's state stays in force. *)
Theorem C12_refused_keeps_state : forall cfg compose rm a,
  apply cfg compose a rm = None -> step cfg compose rm a = rm.
Proof. exact refused_keeps_state. Qed.
Print Assumptions C12_refused_keeps_state.

(* A degraded update (patches fail to apply) keeps exactly the previous document. *)
Theorem C12_degraded_update_keeps_document_partial : forall cfg compose a rm rm' doc,
  a_type a = TUpdate -> rm_doc rm = Some doc -> compose doc (v_patches (a_view a)) = None ->
  apply cfg compose a rm = Some rm' -> rm_doc rm' = Some doc.
Proof. exact degraded_update_keeps_document. Qed.
Print Assumptions C12_degraded_update_keeps_document_partial.

(* A degraded create / recover (patches fail to apply) has the empty document - not the result of
   the patches that came before the failing one. *)
Theorem C12_degraded_create_has_empty_document : forall cfg compose a rm rm',
  a_type a = TCreate -> compose [] (v_patches (a_view a)) = None ->
  apply cfg compose a rm = Some rm' -> rm_doc rm' = Some [].
Proof. exact degraded_create_empty. Qed.
Print Assumptions C12_degraded_create_has_empty_document.

Theorem C12_degraded_recover_has_empty_document : forall cfg compose a rm rm',
  a_type a = TRecover -> compose [] (v_patches (a_view a)) = None ->
  apply cfg compose a rm = Some rm' -> rm_doc rm' = Some [].
Proof. exact degraded_recover_empty. Qed.
Print Assumptions C12_degraded_recover_has_empty_document.

(* All or nothing, for every operation type: the document of the new state is the composer's whole
   result for the operation's patch list, or the previous document (update), or the empty
   document (create / recover / deactivate) - never anything in between. *)
Theorem C12_document_all_or_nothing : forall cfg compose a rm rm',
  apply cfg compose a rm = Some rm' ->
  match a_type a with
  | TUpdate => exists doc, rm_doc rm = Some doc /\
                 (rm_doc rm' = Some doc \/ exists d, compose doc (v_patches (a_view a)) = Some d /\ rm_doc rm' = Some d)
  | TCreate | TRecover => rm_doc rm' = Some [] \/ exists d, compose [] (v_patches (a_view a)) = Some d /\ rm_doc rm' = Some d
  | TDeactivate => rm_doc rm' = Some []
  | TOther => False
  end.
Proof. exact document_all_or_nothing. Qed.
Print Assumptions C12_document_all_or_nothing.

Example C12_nonvacuous :
  apply_patches [] [JObj [("action", JStr "add-also-known-as"); ("uris", JArr [JStr "u:1"])];
                    JObj [("action", JStr "ietf-json-patch");
                          ("patches", JArr [JObj [("op", JStr "remove"); ("path", JStr "/missing")]])]]%string = None.
Proof. vm_compute. reflexivity. Qed.
