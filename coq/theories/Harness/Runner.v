(* Generic driver for the correspondence check: a judge maps a case (inputs + what the
   implementation did) to a verdict; run_cases returns the non-passing ones as numbers so that
   the output is trivially parseable.
     code 1 = model and implementation disagree on a projected observable
     code 2 = the implementation's observation violates the executable spec
     code 3 = case outside the model's domain (not compared)
     code 4 = the implementation violates the spec in a way listed in known_findings.json (class number)
   The second number identifies the step / clause. *)
From Coq Require Import List NArith.
Import ListNotations.

Inductive verdict := Pass | Mismatch (where_ : nat) | SpecFail (clause : nat) | OutOfDomain (why : nat) | Known (finding : nat).

Definition code_of (v : verdict) : option (nat * nat) :=
  match v with
  | Pass => None
  | Mismatch w => Some (1, w)
  | SpecFail c => Some (2, c)
  | OutOfDomain w => Some (3, w)
  | Known k => Some (4, k)
  end.

Fixpoint run_cases {A} (judge : A -> verdict) (cs : list (nat * A)) : list (nat * (nat * nat)) :=
  match cs with
  | [] => []
  | (i, c) :: r =>
      match code_of (judge c) with
      | None => run_cases judge r
      | Some k => (i, k) :: run_cases judge r
      end
  end.
