(* Judge for C05 (canonicalization). *)
From Coq Require Import ZArith NArith String List Bool Ascii.
From Sidetree Require Import Base.Sha2 Json.Json Json.Utf Json.Es6 Json.Jcs Json.Parse Sidetree.Composer Harness.Runner.
Import ListNotations.
Open Scope string_scope.

Inductive jcase :=
| mk_jcase (spellings : list (string * option string)) (idem : bool)
| mk_jnum (neg : bool) (digits : string) (n : Z) (impl : option string).

(* members of every object strictly increasing in UTF-16 code unit order *)
Fixpoint keys_sorted (j : json) : bool :=
  match j with
  | JArr l => forallb keys_sorted l
  | JObj m =>
      andb ((fix go (m : list (string * json)) : bool :=
               match m with
               | (k1, _) :: (((k2, _) :: _) as r) =>
                   andb (match units_cmp (sort_key k1) (sort_key k2) with Lt => true | _ => false end) (go r)
               | _ => true
               end) m)
           (forallb (fun kv => keys_sorted (snd kv)) m)
  | _ => true
  end.

Fixpoint has_ws_outside_strings (in_str esc : bool) (s : string) : bool :=
  match s with
  | EmptyString => false
  | String c r =>
      if in_str then
        if esc then has_ws_outside_strings true false r
        else if (N_of_ascii c =? 92)%N then has_ws_outside_strings true true r
        else if (N_of_ascii c =? 34)%N then has_ws_outside_strings false false r
        else has_ws_outside_strings true false r
      else if is_ws c then true
      else if (N_of_ascii c =? 34)%N then has_ws_outside_strings true false r
      else has_ws_outside_strings false false r
  end.

Definition same_value (a b : string) : option bool :=
  match parse_json a, parse_json b with
  | Some va, Some vb =>
      match normalise_numbers va, normalise_numbers vb with
      | Some na, Some nb => Some (json_equiv na nb)
      | _, _ => None
      end
  | _, _ => Some false
  end.

Fixpoint judge_spellings (idx : nat) (first : option string) (l : list (string * option string)) : verdict :=
  match l with
  | [] => Pass
  | (input, out) :: r =>
      match transform input, out with
      | TOutOfDomain, _ => OutOfDomain idx
      | TErr, Some _ => Mismatch idx
      | TErr, None => judge_spellings (S idx) first r
      | TOk o, None => Mismatch idx
      | TOk o, Some o' =>
          (* executable spec on the implementation's output first *)
          if has_ws_outside_strings false false o' then SpecFail (10 * idx + 1)
          else match parse_json o' with
               | None => SpecFail (10 * idx + 2)
               | Some v =>
                   if negb (keys_sorted v) then SpecFail (10 * idx + 3)
                   else match same_value input o' with
                        | Some false => SpecFail (10 * idx + 4)
                        | _ =>
                            match first with
                            | Some f => if negb (String.eqb f o') then SpecFail (10 * idx + 5)
                                        else if negb (String.eqb o o') then SpecFail (10 * idx + 6)
                                        else judge_spellings (S idx) first r
                            | None => if negb (String.eqb o o') then SpecFail (10 * idx + 6)
                                      else judge_spellings (S idx) (Some o') r
                            end
                        end
               end
      end
  end.

Definition digit_values (s : string) : list N := map (fun b => (b - 48)%N) (bytes_of_string s).

Definition judge_jcs (c : jcase) : verdict :=
  match c with
  | mk_jcase sp idem => if negb idem then SpecFail 7 else judge_spellings 0 None sp
  | mk_jnum neg digits n impl =>
      let expected :=
        match digits with
        | EmptyString => "[0]"
        | _ => "[" ++ string_of_bytes (es6_layout neg (digit_values digits) n) ++ "]"
        end in
      match impl with
      | Some o => if String.eqb o expected then Pass else SpecFail 8
      | None => SpecFail 9
      end
  end.
