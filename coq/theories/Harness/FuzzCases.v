(* Judge for C19 (no panic / hang; model-compared Parse verdict under type confusion). *)
From Coq Require Import ZArith NArith String List Bool.
From Sidetree Require Import Json.Json Sidetree.Protocol Sidetree.Parser Harness.Runner Harness.PatchCases.
Import ListNotations.
Open Scope string_scope.

Inductive c19case :=
| mk_c19 (entry : string) (class : nat) (tag : string)               (* 0 ok, 1 err, 2 panic, 3 timeout *)
| mk_c19parse (oracle : url_table) (cfg : protocol) (bytes : string) (class : nat).

Definition judge_c19 (c : c19case) : verdict :=
  match c with
  | mk_c19 _ class _ => if Nat.leb 2%nat class then SpecFail class else Pass
  | mk_c19parse t cfg bytes class =>
      if Nat.leb 2%nat class then SpecFail class else
      let m := parse_operation cfg (uri_ok_of t) (url_norm_of t) (fun _ => true) (fun _ _ => true) bytes false in
      match m, class with
      | Some _, O => Pass
      | None, S O => Pass
      | _, _ => Mismatch 5
      end
  end.
