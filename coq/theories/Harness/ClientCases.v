(* Judge for C08 (client-built requests). *)
From Coq Require Import ZArith NArith String List Bool.
From Sidetree Require Import Base.Hex Json.Json Sidetree.Protocol Sidetree.Composer Sidetree.Parser Sidetree.Applier Sidetree.ClientCreate Sidetree.ClientUpdate
     Sidetree.ClientDeactivateRecover Sidetree.ClientWindowed Sidetree.ClientWindowedDR Sidetree.Anchored Sidetree.Validator Harness.Runner Harness.PatchCases Harness.Hist.
Import ListNotations.
Open Scope string_scope.

Inductive c08case :=
| mk_c08 (h : hcase) (exp_docs : list obj) (exp_doc : obj) (exp_update_c exp_recovery_c : string) (exp_deactivated : bool) (exp_origin : json)
         (all_built all_parsed anchored_ok linked_ok : bool) (anchored : list (option string))
| mk_c08refuse (code : nat) (impl_refused expect_refuse : bool)
| mk_c08conc (as_sequential : bool)
(* the builder models run on the builders' inputs: the request bytes (or the refusal) must be the implementation's *)
| mk_c08b_create (i : create_info) (impl : option string)
| mk_c08b_update (i : update_info) (f u : Z) (impl : option string)
| mk_c08b_deactivate (i : deactivate_info) (f u : Z) (impl : option string)
| mk_c08b_recover (i : recover_info) (f u : Z) (impl : option string).

Definition opt_str_eqb (a b : option string) : bool :=
  match a, b with
  | Some x, Some y => String.eqb x y
  | None, None => true
  | _, _ => false
  end.

Definition in_window_domain (z : Z) : bool := andb (0 <=? z)%Z (z <? 10 ^ 15)%Z.

(* null, [] and absent members are the same request ("no keys") *)
Definition doc_norm (d : obj) : obj :=
  filter (fun kv => match snd kv with JNull | JArr [] => false | _ => true end) d.

Fixpoint last_state (steps : list hstep) (acc : option rmodel) : option rmodel :=
  match steps with
  | [] => acc
  | s :: r => last_state r (match hs_impl s with Some x => Some x | None => acc end)
  end.

(* after every step the resolved document is the one requested so far *)
Fixpoint docs_as_requested (steps : list hstep) (eds : list obj) : bool :=
  match steps, eds with
  | s :: r, e :: er =>
      andb (match hs_impl s with
            | Some rm => match rm_doc rm with Some d => obj_equiv (doc_norm d) (doc_norm e) | None => false end
            | None => false
            end) (docs_as_requested r er)
  | _, _ => true
  end.

(* model.GetAnchoredOperation on every accepted request of the lifecycle: the anchored bytes are the
   model's (Anchored.anchored_bytes of the model's own parse of the request) *)
Fixpoint anchored_as_model (steps : list hstep) (impl : list (option string)) : bool :=
  match steps, impl with
  | s :: r, a :: ar =>
      andb (match hs_bytes s with
            | Some (scfg, t, bytes) =>
                match parse_operation scfg (uri_ok_of t) (url_norm_of t) (fun _ => true) (fun _ _ => true) bytes false with
                | Some p => opt_str_eqb (anchored_bytes p) a
                | None => match a with None => true | Some _ => false end
                end
            | None => true
            end) (anchored_as_model r ar)
  | _, _ => true
  end.

Definition judge_c08 (c : c08case) : verdict :=
  match c with
  | mk_c08 h eds ed eu er edx eo built parsed anch linked anchored =>
      if negb built then SpecFail 1                     (* a builder refused valid input *)
      else if negb parsed then SpecFail 2               (* a built request was refused by the parser *)
      else if negb anch then SpecFail 3                 (* anchored form does not preserve the request *)
      else if negb linked then SpecFail 10              (* a reveal value does not open the commitment of the state the request is applied to *)
      else if negb (anchored_as_model (hc_steps h) anchored) then Mismatch 60   (* the anchored request bytes are not the model's *)
      else match judge_history h with
           | Pass =>
             if negb (docs_as_requested (hc_steps h) eds) then SpecFail 4 else
               match last_state (hc_steps h) None with
               | Some rm =>
                   match rm_doc rm with
                   | Some d =>
                       if negb (obj_equiv (doc_norm d) (doc_norm ed)) then SpecFail 4
                       else if negb (String.eqb (rm_update_c rm) eu) then SpecFail 5
                       else if negb (String.eqb (rm_recovery_c rm) er) then SpecFail 6
                       else if negb (Bool.eqb (rm_deactivated rm) edx) then SpecFail 7
                       else if andb (negb edx) (negb (json_equiv (rm_origin rm) eo)) then SpecFail 8
                       else Pass
                   | None => SpecFail 9
                   end
               | None => SpecFail 9
               end
           | v => v
           end
  | mk_c08refuse code refused expect =>
      if Bool.eqb refused expect then Pass
      else if Nat.leb 10 code then Known code else SpecFail (20 + code)
  | mk_c08conc same =>
      (* independent DIDs built and parsed by several goroutines at once: every request as built
         sequentially from the same input, every request accepted *)
      if same then Pass else SpecFail 40
  | mk_c08b_create i impl =>
      if opt_str_eqb (option_map (fun x => fst (fst x)) (build_create i)) impl then Pass else Mismatch 50
  | mk_c08b_update i f u impl =>
      if negb (andb (in_window_domain f) (in_window_domain u)) then OutOfDomain 51
      else if opt_str_eqb (option_map (fun x => fst (fst x)) (build_update_w i f u)) impl then Pass else Mismatch 51
  | mk_c08b_deactivate i f u impl =>
      if negb (andb (in_window_domain f) (in_window_domain u)) then OutOfDomain 52
      else if opt_str_eqb (build_deactivate_w i f u) impl then Pass else Mismatch 52
  | mk_c08b_recover i f u impl =>
      if negb (andb (in_window_domain f) (in_window_domain u)) then OutOfDomain 53
      else if opt_str_eqb (option_map (fun x => fst (fst x)) (build_recover_w i f u)) impl then Pass else Mismatch 53
  end.
