(* Judges for C06 (model hashes) and C04 (commitment / reveal algebra). *)
From Coq Require Import ZArith NArith String List Bool.
From Sidetree Require Import Json.Json Json.Parse Json.JcsRoundTrip Sidetree.Hashing Harness.Runner.
Import ListNotations.
Open Scope string_scope.

Definition opt_str_eqb (a b : option string) : bool :=
  match a, b with
  | Some x, Some y => String.eqb x y
  | None, None => true
  | _, _ => false
  end.

Definition value_of_text (t : string) : option json :=
  match parse_json t with
  | Some v => normalise_numbers v
  | None => None
  end.

Record vcheck := mk_vcheck {
  vc_text : string; vc_hash : string; vc_impl_valid : bool; vc_expect : bool;
  vc_impl_code : option Z; vc_impl_cu : bool; vc_impl_cu19 : bool
}.

Inductive c06case := mk_c06 (text : string) (code : Z) (impl_hash impl_id : option string) (checks : list vcheck).

Definition opt_N_Z_eqb (a : option N) (b : option Z) : bool :=
  match a, b with
  | Some x, Some y => (Z.of_N x =? y)%Z
  | None, None => true
  | _, _ => false
  end.

Fixpoint judge_checks (idx : nat) (l : list vcheck) : verdict :=
  match l with
  | [] => Pass
  | c :: r =>
      match value_of_text (vc_text c) with
      | None => OutOfDomain idx
      | Some v =>
          (* ground truth first: valid iff computed from an equal value with the hash's own algorithm *)
          if negb (Bool.eqb (vc_impl_valid c) (vc_expect c)) then SpecFail (10 * idx + 1)
          else if negb (Bool.eqb (valid_mh v (vc_hash c)) (vc_impl_valid c)) then Mismatch (10 * idx + 2)
          else if negb (opt_N_Z_eqb (mh_code (vc_hash c)) (vc_impl_code c)) then SpecFail (10 * idx + 3)
          else if negb (Bool.eqb (computed_using (vc_hash c) [18; 19]%N) (vc_impl_cu c)) then SpecFail (10 * idx + 4)
          else if negb (Bool.eqb (computed_using (vc_hash c) [19]%N) (vc_impl_cu19 c)) then SpecFail (10 * idx + 4)
          else judge_checks (S idx) r
      end
  end.

(* ground truth alone (needs no model of the value): used for values whose numbers lie outside
   the model's exact class, e.g. integer literals beyond 2^53 *)
Fixpoint ground_truth_checks (idx : nat) (l : list vcheck) : verdict :=
  match l with
  | [] => Pass
  | c :: r => if negb (Bool.eqb (vc_impl_valid c) (vc_expect c)) then SpecFail (10 * idx + 1) else ground_truth_checks (S idx) r
  end.

Definition judge_c06 (c : c06case) : verdict :=
  match c with
  | mk_c06 text code ih iid checks =>
      match value_of_text text with
      | None => match ground_truth_checks 1 checks with Pass => OutOfDomain 0 | v => v end
      | Some v =>
          (* the hashing entry points canonicalize first, and the canonicalizer takes arrays and objects only *)
          let m := if orb (code <? 0)%Z (negb (is_container v)) then None else calc_mh v (Z.to_N code) in
          if negb (opt_str_eqb m ih) then SpecFail 5
          else if negb (opt_str_eqb (option_map (fun s => "did:ns:" ++ s) m) iid) then SpecFail 6
          else judge_checks 1 checks
      end
  end.

Record link := mk_link { lk_type : string; lk_reveal : option string; lk_next : option string; lk_pred : string }.

Inductive c04case :=
| mk_c04key (jwk : json) (code : Z) (rv c cfr : option string) (jwk2 : json) (c2 : option string)
| mk_c04chain (links : list link)
(* a request whose reveal value is not the multihash of the key that signed: the accessors must refuse it *)
| mk_c04refuse (what : nat) (reveal_refused commitment_refused : bool).

Fixpoint judge_links (idx : nat) (l : list link) : verdict :=
  match l with
  | [] => Pass
  | k :: r =>
      match lk_reveal k with
      | None => SpecFail (10 * idx + 1)                 (* parser reported no reveal value for a well-formed op *)
      | Some rv =>
          if negb (opt_str_eqb (commit_of_reveal rv) (Some (lk_pred k))) then SpecFail (10 * idx + 2)
          else if andb (String.eqb (lk_type k) "deactivate") (negb (opt_str_eqb (lk_next k) (Some ""))) then SpecFail (10 * idx + 3)
          else if andb (negb (String.eqb (lk_type k) "deactivate")) (match lk_next k with Some "" | None => true | _ => false end)
               then SpecFail (10 * idx + 4)
          else judge_links (S idx) r
      end
  end.

Definition judge_c04 (c : c04case) : verdict :=
  match c with
  | mk_c04key jwk code rv cm cfr jwk2 c2 =>
      let n := Z.to_N code in
      if negb (opt_str_eqb (reveal jwk n) rv) then SpecFail 1
      else if negb (opt_str_eqb (commit jwk n) cm) then SpecFail 2
      else if negb (opt_str_eqb (match rv with Some r => commit_of_reveal r | None => None end) cfr) then SpecFail 3
      else if negb (opt_str_eqb cfr cm) then SpecFail 4            (* commitment(reveal(k)) = commitment(k) *)
      else if negb (opt_str_eqb (commit jwk2 n) c2) then SpecFail 5
      else match cm, c2 with
           | Some a, Some b => if String.eqb a b then SpecFail 6 else Pass   (* keys differing in one member *)
           | _, _ => Pass
           end
  | mk_c04chain links => judge_links 0 links
  | mk_c04refuse w r c => if andb r c then Pass else SpecFail (50 + Nat.modulo w 10)
  end.
