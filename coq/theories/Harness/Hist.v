(* Judges for histories of anchored operations (C01, C02, C09, C12). *)
From Coq Require Import ZArith String List Bool.
From Sidetree Require Import Base.GoInt Json.Json Sidetree.Protocol Sidetree.Window Sidetree.Composer
     Sidetree.Applier Sidetree.Resolve Harness.Runner Harness.PatchCases.
Import ListNotations.
Open Scope string_scope.

Definition mk_view (parse_ok signed_ok sig_ok suffix_ok dh_ok dv : bool) (uc rc : string) (origin : json)
           (from until : Z) (patches : list json) : opview :=
  {| v_parse_ok := parse_ok; v_signed_ok := signed_ok; v_sig_ok := sig_ok; v_suffix_ok := suffix_ok;
     v_delta_hash_ok := dh_ok; v_delta_valid := dv; v_update_c := uc; v_recovery_c := rc;
     v_origin := origin; v_from := from; v_until := until; v_patches := patches |}.

Record hstep := mk_hstep {
  hs_op : anchored;
  hs_impl : option rmodel;            (* Apply's result; None = error *)
  hs_intact : bool;                   (* inputs deep-equal before/after, no state with an error *)
  hs_again : bool;                    (* the same call repeated on the same applier instance gave the same answer *)
  hs_novalidators : bool;             (* an applier whose parser has refusing request-time validators gave the same answer *)
  hs_seen : option (Z * Z);           (* arguments received by the time validator (non-batch parse) *)
  hs_parser_refused : bool;
  hs_bytes : option (protocol * url_table * string)   (* per-step protocol, net/url oracle, request bytes *)
}.

Record hcase := mk_hcase {
  hc_cfg : protocol;
  hc_pub : list Z;
  hc_unpub : list Z;
  hc_steps : list hstep
}.

Definition list_eqb {A} (eqb : A -> A -> bool) :=
  fix go (a b : list A) : bool :=
    match a, b with
    | [], [] => true
    | x :: xs, y :: ys => andb (eqb x y) (go xs ys)
    | _, _ => false
    end.

Definition opt_doc_equiv (a b : option obj) : bool :=
  match a, b with
  | None, None => true
  | Some x, Some y => obj_equiv x y
  | _, _ => false
  end.

Definition rm_equiv (a b : rmodel) : bool :=
  opt_doc_equiv (rm_doc a) (rm_doc b) &&
  (rm_created a =? rm_created b)%Z && (rm_updated a =? rm_updated b)%Z &&
  (rm_last_time a =? rm_last_time b)%Z && (rm_last_num a =? rm_last_num b)%Z &&
  (rm_last_ver a =? rm_last_ver b)%Z &&
  String.eqb (rm_update_c a) (rm_update_c b) && String.eqb (rm_recovery_c a) (rm_recovery_c b) &&
  Bool.eqb (rm_deactivated a) (rm_deactivated b) && json_equiv (rm_origin a) (rm_origin b) &&
  list_eqb String.eqb (rm_equiv a) (rm_equiv b) && String.eqb (rm_canon a) (rm_canon b) &&
  String.eqb (rm_version a) (rm_version b) &&
  list_eqb Z.eqb (rm_published a) (rm_published b) && list_eqb Z.eqb (rm_unpublished a) (rm_unpublished b).

Definition opt_rm_equiv (a b : option rmodel) : bool :=
  match a, b with
  | None, None => true
  | Some x, Some y => rm_equiv x y
  | _, _ => false
  end.

(* declarative window, as a boolean (independent of the mirror's verify_range) *)
Definition in_window_b (delta from until t : Z) : bool :=
  orb (andb (from =? 0)%Z (until =? 0)%Z)
      (andb (from <=? t)%Z (t <=? (if (until =? 0)%Z then from + delta else until))%Z).

Definition authorised (a : anchored) : bool :=
  let v := a_view a in
  match a_type a with
  | TCreate => v_parse_ok v
  | TUpdate => v_parse_ok v && v_signed_ok v && v_sig_ok v && v_delta_hash_ok v
  | TRecover => v_parse_ok v && v_signed_ok v && v_sig_ok v
  | TDeactivate => v_parse_ok v && v_signed_ok v && v_sig_ok v && v_suffix_ok v
  | TOther => false
  end.

Section Judge.
  (* extra : an additional per-step spec predicate on (cfg, previous model state, step) *)
  Variable extra : protocol -> rmodel -> hstep -> option nat.

  Fixpoint walk (cfg : protocol) (rm : rmodel) (idx : nat) (steps : list hstep) : verdict :=
    match steps with
    | [] => Pass
    | s :: rest =>
        let a := hs_op s in
        if negb (patches_in_domain (v_patches (a_view a))) then OutOfDomain idx else
        let m := apply cfg apply_patches a rm in
        match extra cfg rm s with
        | Some clause => SpecFail (100 * idx + clause)
        | None =>
            (* the mirror is proved equal to the spec (run_refines_spec), so a disagreement with
               the implementation on these observables is a spec failure of the implementation *)
            if negb (opt_rm_equiv m (hs_impl s)) then SpecFail (100 * idx) else
            (* Apply is a function of (operation, state): an applier that answers differently the
               second time carries state the specification does not have *)
            if negb (hs_again s) then SpecFail (100 * idx + 90) else
            (* request-time validators (node clock, allowed origins) are for requests that are not yet
               anchored: they must not decide what an anchored operation does *)
            if negb (hs_novalidators s) then SpecFail (100 * idx + 91) else
            (* byte level: the model derives the view from the request bytes itself (parser mirror,
               Gallina SHA-2); only the primitive signature verdict is taken from the label *)
            let byte_ok :=
              match hs_bytes s with
              | None => true
              | Some (scfg, t, bytes) =>
                  opt_rm_equiv (apply_bytes scfg (uri_ok_of t) (url_norm_of t) (a_type a) bytes (v_sig_ok (a_view a))
                                            (a_time a) (a_num a) (a_ver a) (a_canon a) (a_equiv a) rm) (hs_impl s)
              end in
            if negb byte_ok then Mismatch (100 * idx + 50) else
            walk cfg (match m with Some r => r | None => rm end) (S idx) rest
        end
    end.

  Definition judge (c : hcase) : verdict :=
    walk (hc_cfg c) (empty_rm (hc_pub c) (hc_unpub c)) 0 (hc_steps c).
End Judge.

Definition no_extra (_ : protocol) (_ : rmodel) (_ : hstep) : option nat := None.

(* C02: a state change needs authorisation; document content needs a bound delta *)
Definition extra_auth (cfg : protocol) (rm : rmodel) (s : hstep) : option nat :=
  match hs_impl s with
  | None => None
  | Some r =>
      if negb (authorised (hs_op s)) then Some 1%nat
      else match a_type (hs_op s) with
           | TCreate | TRecover =>
               if negb (delta_usable (a_view (hs_op s))) &&
                  negb (opt_doc_equiv (rm_doc r) (Some []) && String.eqb (rm_update_c r) "")
               then Some 2%nat else None
           | _ => None
           end
  end.

(* C09: effect of the window per operation type, and what the parser hands to the validator *)
Definition extra_window (cfg : protocol) (rm : rmodel) (s : hstep) : option nat :=
  let a := hs_op s in
  let v := a_view a in
  let d := P_MaxOperationTimeDelta cfg in
  let inw := in_window_b d (v_from v) (v_until v) (a_time a) in
  let seen_ok :=
    match hs_seen s with
    | Some (f, u) =>
        andb (f =? v_from v)%Z
             (u =? (if andb (negb (v_from v =? 0)%Z) (v_until v =? 0)%Z then v_from v + d else v_until v))%Z
    | None => true
    end in
  if negb seen_ok then Some 3%nat else
  match a_type a, hs_impl s with
  | TDeactivate, Some _ => if inw then None else Some 4%nat
  | TUpdate, Some r => if negb inw && negb (opt_doc_equiv (rm_doc r) (rm_doc rm)) then Some 5%nat else None
  | TRecover, Some r => if negb inw && negb (opt_doc_equiv (rm_doc r) (Some [])) then Some 6%nat else None
  | _, _ => None
  end.

(* C12: inputs unchanged, no state together with an error *)
Definition extra_intact (cfg : protocol) (rm : rmodel) (s : hstep) : option nat :=
  if hs_intact s then None else Some 7%nat.

Definition judge_history := judge no_extra.
Definition judge_history_auth := judge extra_auth.
Definition judge_history_window := judge extra_window.
Definition judge_history_intact := judge extra_intact.

(* C12 also has direct patch-list cases: ApplyPatches on Go values with deep snapshots of the
   document and of every patch value taken around the call *)
Inductive c12case :=
| C12H (c : hcase)
| C12P (doc : obj) (ps : list json) (impl : option obj) (intact : bool).

Definition judge_c12 (c : c12case) : verdict :=
  match c with
  | C12H h => judge_history_intact h
  | C12P doc ps impl intact =>
      if negb intact then SpecFail 8                       (* an input was modified, or an error came with a document *)
      else if PatchCases.opt_obj_equiv (apply_patches doc ps) impl then Pass
      else match apply_patches doc ps, impl with
           | None, Some _ => SpecFail 11                   (* a failing list came back with a document and no error *)
           | _, _ => Mismatch 9
           end
  end.
