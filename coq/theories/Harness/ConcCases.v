(* Judge for C20 stress runs (testing, labelled as such: the theorems are in Props/C20.v). *)
From Coq Require Import String List Bool.
From Sidetree Require Import Harness.Runner.
Import ListNotations.
Open Scope string_scope.

Inductive c20case := mk_c20 (scenario : string) (calls mismatches races : nat) (crashed : bool).

Definition judge_c20 (c : c20case) : verdict :=
  match c with
  | mk_c20 _ _ mism races crashed =>
      if negb (Nat.eqb races 0) then SpecFail 1          (* the race detector reported a data race *)
      else if negb (Nat.eqb mism 0) then SpecFail 2      (* concurrent results differ from sequential ones *)
      else if crashed then SpecFail 3
      else Pass
  end.
