(* Judges for C07 (parser acceptance and reporting) and C03 (self-certifying DIDs). *)
From Coq Require Import ZArith NArith String List Bool.
From Sidetree Require Import Json.Json Sidetree.Protocol Sidetree.Composer Sidetree.Validator Sidetree.Parser Harness.Runner Harness.PatchCases.
Import ListNotations.
Open Scope string_scope.

Inductive c07case :=
  mk_c07 (oracle : url_table) (cfg : protocol) (ns bytes : string)
         (impl : option (string * string * string * json)) (bytes_same : bool) (stable : bool)
         (seen_time : option (Z * Z)) (seen_origin : option json)
         (expect : bool) (exp_suffix : string) (exp_origin : json) (reject_time reject_origin : bool).

Definition opt_zz_eqb (a b : option (Z * Z)) : bool :=
  match a, b with
  | Some (x, y), Some (x', y') => andb (x =? x')%Z (y =? y')%Z
  | None, None => true
  | _, _ => false
  end.

Definition judge_c07 (c : c07case) : verdict :=
  match c with
  | mk_c07 t cfg ns bytes impl same stable st so expect esfx eorigin rt ro =>
      let accepted := match impl with Some _ => true | None => false end in
      (* the same request submitted again to the same parser instance must get the same answer *)
      if negb stable then SpecFail 10 else
      (* ground truth first *)
      if negb (Bool.eqb accepted expect) then SpecFail 1 else
      match impl with
      | Some (ty, sfx, id, origin) =>
          if negb same then SpecFail 2
          else if negb (String.eqb id (ns ++ ":" ++ sfx)) then SpecFail 3
          else if negb (String.eqb sfx esfx) then SpecFail 4
          else if negb (json_equiv origin eorigin) then SpecFail 5
          else
            let m := parse_operation cfg (uri_ok_of t) (url_norm_of t) (fun _ => negb ro) (fun _ _ => negb rt) bytes false in
            match m with
            | Some p =>
                if negb (andb (String.eqb (p_type p) ty) (andb (String.eqb (p_suffix p) sfx) (json_equiv (p_origin p) origin)))
                then Mismatch 6
                else if negb (opt_zz_eqb (p_time_args p) st) then SpecFail 7
                else Pass
            | None => Mismatch 8
            end
      | None =>
          match parse_operation cfg (uri_ok_of t) (url_norm_of t) (fun _ => negb ro) (fun _ _ => negb rt) bytes false with
          | Some _ => Mismatch 9
          | None => Pass
          end
      end
  end.

Record variant := mk_variant { va_bytes : string; va_impl : option (string * string); va_same : bool; va_must_refuse : bool }.

Inductive c03case := mk_c03 (oracle : url_table) (cfg : protocol) (exp_suffix : string) (variants : list variant)
                               (order_pairs : list (variant * variant))
                               (lf_tail : string) (lf : list (string * bool)).

Fixpoint judge_variants (t : url_table) (cfg : protocol) (esfx : string) (idx : nat) (l : list variant) : verdict :=
  match l with
  | [] => Pass
  | v :: r =>
      let m := parse cfg (uri_ok_of t) (url_norm_of t) (fun _ => true) (fun _ _ => true) "did:ns" (va_bytes v) in
      let spec_ok :=
        match va_impl v with
        | Some (sfx, id) =>
            if va_must_refuse v then false else
            if va_same v then andb (String.eqb sfx esfx) (String.eqb id ("did:ns:" ++ esfx))
            else negb (String.eqb sfx esfx)             (* a modification changes the DID (or is refused) *)
        | None => negb (va_same v)                      (* the same request must be accepted however it is spelled *)
        end in
      if negb spec_ok then SpecFail (10 * idx + 1)
      else
        let agree :=
          match m, va_impl v with
          | Some (_, sfx, id, _), Some (sfx', id') => andb (String.eqb sfx sfx') (String.eqb id id')
          | None, None => true
          | _, _ => false
          end in
        if negb agree then Mismatch (10 * idx + 2) else judge_variants t cfg esfx (S idx) r
  end.

(* two member orders of one request: the same verdict and the same suffix.  When they differ and
   the request carries two names equal up to ASCII case at a struct-decoded level (request,
   suffix data, delta), this is the listed finding 30 of C03; any other difference is a failure. *)
Definition fold_distinct (m : obj) : bool := nodup_str (map (fun kv => fold_name (fst kv)) m).

Definition struct_levels_b (bytes : string) : bool :=
  match top_object bytes with
  | Some m =>
      let inner name := match field name m with Some (JObj x) => fold_distinct x | _ => true end in
      andb (fold_distinct m) (andb (inner "suffixData") (inner "delta"))
  | None => true
  end.

Definition variant_agrees (t : url_table) (cfg : protocol) (v : variant) : bool :=
  match parse cfg (uri_ok_of t) (url_norm_of t) (fun _ => true) (fun _ _ => true) "did:ns" (va_bytes v), va_impl v with
  | Some (_, sfx, id, _), Some (sfx', id') => andb (String.eqb sfx sfx') (String.eqb id id')
  | None, None => true
  | _, _ => false
  end.

Fixpoint judge_pairs (t : url_table) (cfg : protocol) (idx : nat) (l : list (variant * variant)) : verdict :=
  match l with
  | [] => Pass
  | (a, b) :: r =>
      if negb (andb (variant_agrees t cfg a) (variant_agrees t cfg b)) then Mismatch (1000 + idx)
      else
        let same := match va_impl a, va_impl b with
                    | Some (s1, i1), Some (s2, i2) => andb (String.eqb s1 s2) (String.eqb i1 i2)
                    | None, None => true
                    | _, _ => false
                    end in
        if same then judge_pairs t cfg (S idx) r
        else if negb (struct_levels_b (va_bytes a)) then Known 30
        else SpecFail (1000 + idx)
  end.

(* long-form DIDs made of this request's canonical bytes as initial state: whatever resolves must
   end with ":" suffix ":" state - the segment in front of the initial state is exactly the
   suffix of the request (a handler may serve namespaces with further segments) *)
Definition ends_with (s t : string) : bool :=
  andb (Nat.leb (String.length t) (String.length s))
       (String.eqb (substring (String.length s - String.length t) (String.length t) s) t).

Fixpoint judge_lf (tail : string) (idx : nat) (l : list (string * bool)) : verdict :=
  match l with
  | [] => Pass
  | (did, resolved) :: r =>
      if andb resolved (negb (ends_with did tail)) then SpecFail (2000 + idx) else judge_lf tail (S idx) r
  end.

Definition judge_c03 (c : c03case) : verdict :=
  match c with
  | mk_c03 t cfg esfx vs ps exact lf =>
      match judge_variants t cfg esfx 0 vs with
      | Pass => match judge_pairs t cfg 0 ps with
                | Pass => judge_lf exact 0 lf
                | v => v
                end
      | v => v
      end
  end.
