(* Judges for C07 (parser acceptance and reporting) and C03 (self-certifying DIDs). *)
From Coq Require Import ZArith NArith String List Bool.
From Sidetree Require Import Json.Json Sidetree.Protocol Sidetree.Composer Sidetree.Parser Harness.Runner Harness.PatchCases.
Import ListNotations.
Open Scope string_scope.

Inductive c07case :=
  mk_c07 (oracle : url_table) (cfg : protocol) (ns bytes : string)
         (impl : option (string * string * string * json)) (bytes_same : bool) (stable : bool)
         (seen_time : option (Z * Z)) (seen_origin : option json)
         (expect : bool) (exp_suffix : string) (exp_origin : json) (reject_time reject_origin : bool).

Definition opt_zz_eqb (a b : option (Z * Z)) : bool :=
  match a, b with
  | Some (x, y), Some (x', y') => andb (x =? x')%Z (y =? y')%Z
  | None, None => true
  | _, _ => false
  end.

Definition judge_c07 (c : c07case) : verdict :=
  match c with
  | mk_c07 t cfg ns bytes impl same stable st so expect esfx eorigin rt ro =>
      let accepted := match impl with Some _ => true | None => false end in
      (* the same request submitted again to the same parser instance must get the same answer *)
      if negb stable then SpecFail 10 else
      (* ground truth first *)
      if negb (Bool.eqb accepted expect) then SpecFail 1 else
      match impl with
      | Some (ty, sfx, id, origin) =>
          if negb same then SpecFail 2
          else if negb (String.eqb id (ns ++ ":" ++ sfx)) then SpecFail 3
          else if negb (String.eqb sfx esfx) then SpecFail 4
          else if negb (json_equiv origin eorigin) then SpecFail 5
          else
            let m := parse_operation cfg (uri_ok_of t) (url_norm_of t) (fun _ => negb ro) (fun _ _ => negb rt) bytes false in
            match m with
            | Some p =>
                if negb (andb (String.eqb (p_type p) ty) (andb (String.eqb (p_suffix p) sfx) (json_equiv (p_origin p) origin)))
                then Mismatch 6
                else if negb (opt_zz_eqb (p_time_args p) st) then SpecFail 7
                else Pass
            | None => Mismatch 8
            end
      | None =>
          match parse_operation cfg (uri_ok_of t) (url_norm_of t) (fun _ => negb ro) (fun _ _ => negb rt) bytes false with
          | Some _ => Mismatch 9
          | None => Pass
          end
      end
  end.

Record variant := mk_variant { va_bytes : string; va_impl : option (string * string); va_same : bool; va_must_refuse : bool }.

Inductive c03case := mk_c03 (oracle : url_table) (cfg : protocol) (exp_suffix : string) (variants : list variant).

Fixpoint judge_variants (t : url_table) (cfg : protocol) (esfx : string) (idx : nat) (l : list variant) : verdict :=
  match l with
  | [] => Pass
  | v :: r =>
      let m := parse cfg (uri_ok_of t) (url_norm_of t) (fun _ => true) (fun _ _ => true) "did:ns" (va_bytes v) in
      let spec_ok :=
        match va_impl v with
        | Some (sfx, id) =>
            if va_must_refuse v then false else
            if va_same v then andb (String.eqb sfx esfx) (String.eqb id ("did:ns:" ++ esfx))
            else negb (String.eqb sfx esfx)             (* a modification changes the DID (or is refused) *)
        | None => negb (va_same v)                      (* the same request must be accepted however it is spelled *)
        end in
      if negb spec_ok then SpecFail (10 * idx + 1)
      else
        let agree :=
          match m, va_impl v with
          | Some (_, sfx, id, _), Some (sfx', id') => andb (String.eqb sfx sfx') (String.eqb id id')
          | None, None => true
          | _, _ => false
          end in
        if negb agree then Mismatch (10 * idx + 2) else judge_variants t cfg esfx (S idx) r
  end.

Definition judge_c03 (c : c03case) : verdict :=
  match c with mk_c03 t cfg esfx vs => judge_variants t cfg esfx 0 vs end.
