(* Judge for C18 (resolution results). *)
From Coq Require Import ZArith NArith String List Bool.
From Sidetree Require Import Json.Json Sidetree.Protocol Sidetree.Composer Sidetree.Applier Sidetree.Transformer Harness.Runner.
Import ListNotations.
Open Scope string_scope.

Record opk := mk_opk { ok_time : Z; ok_num : Z; ok_canon : string; ok_idx : Z }.

Definition opk_key (o : opk) : anchored_key := {| F_TransactionTime := ok_time o; F_TransactionNumber := ok_num o |}.

Inductive c18case :=
  mk_c18 (o : topts) (rm : rmodel) (info : tinfo) (impl : option json)
         (pub_in pub_out unpub_in unpub_out : list opk) (stable : bool).

Definition opk_eqb (a b : opk) : bool :=
  (ok_time a =? ok_time b)%Z && (ok_num a =? ok_num b)%Z && String.eqb (ok_canon a) (ok_canon b) && (ok_idx a =? ok_idx b)%Z.

Fixpoint list_eqb_by {A} (eqb : A -> A -> bool) (a b : list A) : bool :=
  match a, b with
  | [], [] => true
  | x :: xs, y :: ys => andb (eqb x y) (list_eqb_by eqb xs ys)
  | _, _ => false
  end.

(* projected comparison: (time, number, canonical reference) for published, (time, index) for unpublished *)
Definition pub_proj_eqb (a b : opk) : bool :=
  (ok_time a =? ok_time b)%Z && (ok_num a =? ok_num b)%Z && String.eqb (ok_canon a) (ok_canon b).
Definition unpub_proj_eqb (a b : opk) : bool := (ok_time a =? ok_time b)%Z && (ok_idx a =? ok_idx b)%Z.

Definition judge_c18 (c : c18case) : verdict :=
  match c with
  | mk_c18 o rm info impl pin pout uin uout stable =>
      if negb stable then SpecFail 6 else
      match transform_document o rm info, impl with
      | Some m, Some r =>
          if negb (json_equiv m r) then SpecFail 1
          else
            let exp_pub := if andb (t_published_ops o) (negb (Nat.eqb (length pin) 0))
                           then dedup_by ok_canon [] (sort_ops opk_key pin) else [] in
            let exp_unpub := if andb (t_unpublished_ops o) (negb (Nat.eqb (length uin) 0)) then sort_ops opk_key uin else [] in
            if negb (list_eqb_by pub_proj_eqb exp_pub pout) then SpecFail 2
            else if negb (list_eqb_by unpub_proj_eqb exp_unpub uout) then SpecFail 3
            else Pass
      | None, None => Pass
      | Some _, None => SpecFail 4
      | None, Some _ => Mismatch 5
      end
  end.
