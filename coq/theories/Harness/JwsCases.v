(* Judges for C15 (JWS) and C16 (JWK). *)
From Coq Require Import ZArith NArith String List Bool.
From Sidetree Require Import Json.Json Sidetree.Composer Sidetree.Parser Sidetree.Jwk Sidetree.Jws Harness.Runner.
Import ListNotations.
Open Scope string_scope.

Inductive c15case :=
| mk_c15 (k : jwk) (compact : string) (impl : option string) (expect : bool) (payload : string)
         (prim_table : list (string * bool))
(* verification with the detached-payload option (ground truth attached by the generator):
   kind 1 = other payload supplied for a non-detached JWS, 2 = detached form with its payload,
   3 = detached form with another payload, 4 = detached form without payload, 5 = same payload supplied *)
| mk_c15opt (kind : nat) (impl_ok : bool) (payload_returned_ok : bool) (expect : bool).

(* primitive verdicts computed by the harness with the standard library for every candidate
   signing input of this JWS under this key; a message outside the table is an oracle miss *)
Definition prim_of (t : list (string * bool)) (miss : bool) (_ _ _ msg _ : string) : bool :=
  match assoc_str msg t with Some b => b | None => miss end.

Definition judge_c15 (c : c15case) : verdict :=
  match c with
  | mk_c15 k compact impl expect payload t =>
      let verified := match impl with Some _ => true | None => false end in
      if negb (Bool.eqb verified expect) then SpecFail 1
      else if andb expect (negb (match impl with Some p => String.eqb p payload | None => false end)) then SpecFail 2
      else
        let lo := verify_jws (prim_of t false) compact k in
        let hi := verify_jws (prim_of t true) compact k in
        match lo, hi with
        | Some a, Some b => match impl with Some p => if String.eqb a p then Pass else Mismatch 3 | None => Mismatch 3 end
        | None, None => match impl with None => Pass | Some _ => Mismatch 4 end
        | _, _ => OutOfDomain 5          (* verdict depends on a signing input the oracle did not cover *)
        end
  | mk_c15opt kind ok pay expect =>
      if negb (Bool.eqb ok expect) then SpecFail (20 + kind)
      else if andb expect (negb pay) then SpecFail (30 + kind)
      else Pass
  end.

Definition jwk_eqb (a b : jwk) : bool :=
  String.eqb (k_kty a) (k_kty b) && String.eqb (k_crv a) (k_crv b) && String.eqb (k_x a) (k_x b) &&
  String.eqb (k_y a) (k_y b) && String.eqb (k_n a) (k_n b) && String.eqb (k_e a) (k_e b) && String.eqb (k_nonce a) (k_nonce b).

Inductive c16case :=
| mk_c16ec (kind : string) (x y : Z) (impl : option jwk) (back_ok : bool) (width : nat) (tampered : list (jwk * bool))
| mk_c16ed (pub : string) (impl : option jwk) (back_ok : bool) (tampered : list (jwk * bool))
| mk_c16params (unchanged : bool).

Fixpoint judge_tampered_ec (idx : nat) (l : list (jwk * bool)) : verdict :=
  match l with
  | [] => Pass
  | (k, accepted) :: r =>
      if accepted then SpecFail (10 * idx + 4)                       (* off-curve / wrong-width JWK accepted *)
      else match ec_of_jwk k with
           | Some _ => Mismatch (10 * idx + 5)
           | None => judge_tampered_ec (S idx) r
           end
  end.

Fixpoint judge_tampered_ed (idx : nat) (l : list (jwk * bool)) : verdict :=
  match l with
  | [] => Pass
  | (k, accepted) :: r =>
      if accepted then SpecFail (10 * idx + 4)
      else match ed_of_jwk k with
           | Some _ => Mismatch (10 * idx + 5)
           | None => judge_tampered_ed (S idx) r
           end
  end.

Definition decoded_len (s : string) : option nat := option_map String.length (Base.Base64url.b64_decode s).

Definition judge_c16 (c : c16case) : verdict :=
  match c with
  | mk_c16ec kind x y impl back w tampered =>
      match find_curve kind, impl with
      | Some cv, Some k =>
          if negb back then SpecFail 1                                     (* read back gives a different key *)
          else if negb (andb (String.eqb (k_kty k) "EC") (String.eqb (k_crv k) kind)) then SpecFail 2
          else if negb (andb (match decoded_len (k_x k) with Some n => Nat.eqb n w | None => false end)
                             (match decoded_len (k_y k) with Some n => Nat.eqb n w | None => false end)) then SpecFail 3
          else if negb (jwk_eqb k (jwk_of_ec cv x y)) then Mismatch 6
          else match ec_of_jwk k with
               | Some (_, x', y') => if andb (x' =? x)%Z (y' =? y)%Z then judge_tampered_ec 1 tampered else Mismatch 7
               | None => Mismatch 7
               end
      | _, _ => SpecFail 8                                                  (* a supported key could not be encoded *)
      end
  | mk_c16ed pub impl back tampered =>
      match impl with
      | Some k =>
          if negb back then SpecFail 1
          else if negb (andb (String.eqb (k_kty k) "OKP") (String.eqb (k_crv k) "Ed25519")) then SpecFail 2
          else if negb (jwk_eqb k (jwk_of_ed pub)) then Mismatch 6
          else match ed_of_jwk k with
               | Some p => if String.eqb p pub then judge_tampered_ed 1 tampered else Mismatch 7
               | None => Mismatch 7
               end
      | None => SpecFail 8
      end
  | mk_c16params unchanged =>
      (* reading and writing keys left the curves' process-wide parameters as they were *)
      if unchanged then Pass else SpecFail 9
  end.
