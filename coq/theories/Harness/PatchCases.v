(* Judges for the patch properties: C13 (validation), C10/C11/C14 (composition). *)
From Coq Require Import ZArith NArith String List Bool.
From Sidetree Require Import Json.Json Sidetree.JsonPatch Sidetree.Composer Sidetree.Validator Harness.Runner.
Import ListNotations.
Open Scope string_scope.

Definition url_table := list (string * (bool * option string)).

Definition uri_ok_of (t : url_table) (s : string) : bool :=
  match assoc_str s t with Some (b, _) => b | None => false end.
Definition url_norm_of (t : url_table) (s : string) : option string :=
  match assoc_str s t with Some (_, n) => n | None => None end.

Definition validate_with (t : url_table) (p : json) : bool :=
  validate_patch (uri_ok_of t) (url_norm_of t) p.

Inductive c13case :=
| mk_c13 (patch : json) (oracle : url_table) (impl_ok expect : bool)
| mk_c13doc (doc : obj) (impl_doc_ok impl_did_ok impl_pfd_ok : bool).

Definition judge_c13 (c : c13case) : verdict :=
  match c with
  | mk_c13 p t impl expect =>
      if negb (Bool.eqb impl expect) then SpecFail 1          (* verdict differs from the documented constraints *)
      else if negb (Bool.eqb (validate_with t p) impl) then Mismatch 2
      else Pass
  | mk_c13doc d a b c' =>
      if negb (Bool.eqb (valid_original_document d) a) then SpecFail 3
      else if negb (Bool.eqb (valid_original_did_document d) b) then SpecFail 4
      else if negb (Bool.eqb (valid_original_document d) c') then SpecFail 5
      else Pass
  end.
