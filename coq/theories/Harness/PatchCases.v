(* Judges for the patch properties: C13 (validation), C10/C11/C14 (composition). *)
From Coq Require Import ZArith NArith String List Bool.
From Sidetree Require Import Json.Json Sidetree.JsonPatch Sidetree.Composer Sidetree.Validator Harness.Runner.
Import ListNotations.
Open Scope string_scope.

Definition url_table := list (string * (bool * option string)).

Definition uri_ok_of (t : url_table) (s : string) : bool :=
  match assoc_str s t with Some (b, _) => b | None => false end.
Definition url_norm_of (t : url_table) (s : string) : option string :=
  match assoc_str s t with Some (_, n) => n | None => None end.

Definition validate_with (t : url_table) (p : json) : bool :=
  validate_patch (uri_ok_of t) (url_norm_of t) p.

Inductive c13case :=
| mk_c13 (patch : json) (oracle : url_table) (impl_ok expect : bool)
| mk_c13doc (doc : obj) (impl_doc_ok impl_did_ok impl_pfd_ok : bool).

Definition judge_c13 (c : c13case) : verdict :=
  match c with
  | mk_c13 p t impl expect =>
      if negb (Bool.eqb impl expect) then SpecFail 1          (* verdict differs from the documented constraints *)
      else if negb (Bool.eqb (validate_with t p) impl) then Mismatch 2
      else Pass
  | mk_c13doc d a b c' =>
      if negb (Bool.eqb (valid_original_document d) a) then SpecFail 3
      else if negb (Bool.eqb (valid_original_did_document d) b) then SpecFail 4
      else if negb (Bool.eqb (valid_original_document d) c') then SpecFail 5
      else Pass
  end.

(* ---- C10: composition ---- *)
From Sidetree Require Import Sidetree.Rfc6902 Sidetree.Builders Sidetree.Constructors.

(* the documented semantics: per-action functions, RFC 6902 for ietf-json-patch *)
Definition spec_apply_patch (doc : obj) (pj : json) : option obj :=
  match pj with
  | JObj p =>
      match get_action p, get_value p with
      | Some AJsonPatch, Some (JArr ops) => if all_objects ops then rfc_apply doc ops else None
      | Some AJsonPatch, Some _ => None
      | _, _ => apply_patch doc pj
      end
  | _ => None
  end.

Fixpoint spec_apply_patches (doc : obj) (ps : list json) : option obj :=
  match ps with
  | [] => Some doc
  | p :: r => match spec_apply_patch doc p with Some d => spec_apply_patches d r | None => None end
  end.

Definition opt_obj_equiv (a b : option obj) : bool :=
  match a, b with
  | Some x, Some y => obj_equiv x y
  | None, None => true
  | _, _ => false
  end.

Definition ids_unique (doc : obj) : bool :=
  nodup_str (map entry_id (parse_objects (lookup "publicKey" doc))) &&
  nodup_str (map entry_id (parse_objects (lookup "service" doc))).

(* first json-patch deviation along the patch list, following the mirror's documents *)
Fixpoint deviation_in (doc : obj) (ps : list json) : nat :=
  match ps with
  | [] => 0
  | pj :: r =>
      let here :=
        match pj with
        | JObj p => match get_action p, get_value p with
                    | Some AJsonPatch, Some (JArr ops) => first_deviation (JObj doc) ops
                    | _, _ => 0
                    end
        | _ => 0
        end in
      if Nat.eqb here 0 then
        match apply_patch doc pj with Some d => deviation_in d r | None => 0 end
      else here
  end.

Inductive c10case := mk_c10 (doc : obj) (patches : list json) (impl : option obj).

Definition judge_c10 (c : c10case) : verdict :=
  match c with
  | mk_c10 doc ps impl =>
      if negb (patches_in_domain ps) then Known 8          (* copy node sharing of the pinned library *)
      else
      let spec := spec_apply_patches doc ps in
      let mirror := apply_patches doc ps in
      match impl with
      | Some r => if andb (ids_unique doc) (negb (ids_unique r)) then SpecFail 2 else
                  if opt_obj_equiv spec impl then Pass
                  else if andb (opt_obj_equiv mirror impl) (negb (Nat.eqb (deviation_in doc ps) 0)) then Known (deviation_in doc ps)
                  else SpecFail 1
      | None => if opt_obj_equiv spec impl then Pass
                else if andb (opt_obj_equiv mirror impl) (negb (Nat.eqb (deviation_in doc ps) 0)) then Known (deviation_in doc ps)
                else SpecFail 1
      end
  end.

(* ---- C11: validated ietf-json-patch never alters keys or services ---- *)

Inductive c11case :=
| mk_c11 (doc : obj) (patch : json) (impl_valid : bool) (impl : option obj)
| mk_c11seq (doc : obj) (patches : list json) (impl_all_valid : bool) (impl : option obj)
(* ietf-json-patches around dedicated actions that do change keys / services: judged against the model's fold *)
| mk_c11mixed (doc : obj) (patches : list json) (impl_all_valid : bool) (impl : option obj).

(* the key / service entries a document holds (absent, null and [] all mean none) *)
Definition entries_of_member (k : string) (d : obj) : json := JArr (map JObj (parse_objects (lookup k d))).

Definition opt_json_equiv' (a b : option json) : bool :=
  match a, b with
  | Some x, Some y => json_equiv x y
  | None, None => true
  | _, _ => false
  end.

Definition judge_c11 (c : c11case) : verdict :=
  match c with
  | mk_c11 doc p iv impl =>
      let frame_ok :=
        match impl with
        | Some r => andb (opt_json_equiv' (lookup "publicKey" doc) (lookup "publicKey" r))
                         (opt_json_equiv' (lookup "service" doc) (lookup "service" r))
        | None => true
        end in
      if andb iv (negb frame_ok) then SpecFail 1
      else if negb (Bool.eqb (validate_with [] p) iv) then Mismatch 2
      else if negb (patches_in_domain [p]) then OutOfDomain 3
      else if andb iv (negb (opt_obj_equiv (apply_patches doc [p]) impl)) then Mismatch 4
      else Pass
  | mk_c11seq doc ps iv impl =>
      (* a validated ietf-json-patch followed by dedicated actions naming unknown ids: the keys and
         services at the end are the ones at the start *)
      let frame_ok :=
        match impl with
        | Some r => andb (json_equiv (entries_of_member "publicKey" doc) (entries_of_member "publicKey" r))
                         (json_equiv (entries_of_member "service" doc) (entries_of_member "service" r))
        | None => true
        end in
      if andb iv (negb frame_ok) then SpecFail 5
      else if negb (Bool.eqb (forallb (validate_with []) ps) iv) then Mismatch 6
      else if negb (patches_in_domain ps) then OutOfDomain 7
      else if andb iv (negb (opt_obj_equiv (apply_patches doc ps) impl)) then Mismatch 8
      else Pass
  | mk_c11mixed doc ps iv impl =>
      if negb (Bool.eqb (forallb (validate_with []) ps) iv) then Mismatch 9
      else if negb (patches_in_domain ps) then OutOfDomain 7
      else if andb iv (negb (opt_obj_equiv (apply_patches doc ps) impl)) then Mismatch 10
      else Pass
  end.

(* ---- C14: round trips ---- *)

Inductive c14case :=
| mk_c14doc (doc : obj) (in_class : bool) (impl_patches : option (list json)) (impl_applied : option obj)
            (all_valid : bool) (bytes_roundtrip : bool)
| mk_c14bytes (v : json) (impl_ok expect : bool)
| mk_c14ctor (patch : json) (oracle : url_table) (impl_valid : bool)
| mk_c14new (action : string) (arg : json) (oracle : url_table) (impl_patch : option json) (impl_valid : bool) (rt_same : bool).

Definition list_json_equiv (a b : list json) : bool := json_equiv (JArr a) (JArr b).

(* member names that merely begin like a protected member's name ("publicKeys", "serviceHints"):
   the ietf validator refuses their pointers too (listed finding, see known_findings.json) *)
Definition shadow_name (k : string) : bool :=
  orb (andb (is_prefix "publicKey" k) (negb (String.eqb k "publicKey")))
      (andb (is_prefix "service" k) (negb (String.eqb k "service"))).

(* a key or service list naming an id twice: a document like any other for the round trip, but not
   "valid input" for the constructors-pass-validation clause (validation wants distinct ids) *)
Definition repeats_entry_id (doc : obj) : bool :=
  orb (negb (nodup_str (map entry_id (parse_objects (lookup "publicKey" doc)))))
      (negb (nodup_str (map entry_id (parse_objects (lookup "service" doc))))).

Definition judge_c14 (c : c14case) : verdict :=
  match c with
  | mk_c14doc doc in_class ips applied all_valid rt =>
      let m := patches_from_document doc in
      match ips with
      | None => if negb (String.eqb (entry_id doc) "") then Pass          (* documents with an id are refused *)
                else if in_class then SpecFail 1 else
                match m with None => Pass | Some _ => Mismatch 2 end
      | Some ps =>
          if negb (String.eqb (entry_id doc) "") then SpecFail 3
          else if andb in_class (negb (opt_obj_equiv applied (Some doc))) then SpecFail 4
          else if andb (andb in_class (negb (repeats_entry_id doc))) (negb all_valid) then
            (if existsb (fun kv => shadow_name (fst kv)) doc then Known 20 else SpecFail 5)
          else if negb rt then SpecFail 6
          else match m with
               | Some mps => if list_json_equiv mps ps then Pass else Mismatch 7
               | None => Mismatch 7
               end
      end
  | mk_c14bytes v impl_ok expect =>
      if negb (Bool.eqb impl_ok expect) then SpecFail 8
      else let model := match v with JObj p => match get_action p, get_value p with Some _, Some _ => true | _, _ => false end | _ => false end in
           if negb (Bool.eqb model impl_ok) then Mismatch 9 else Pass
  | mk_c14ctor p t iv =>
      if negb iv then SpecFail 10
      else if negb (validate_with t p) then Mismatch 11 else Pass
  | mk_c14new an v t impl iv rt_same =>
      if negb rt_same then SpecFail 15 else
      match action_of_string an with
      | None => OutOfDomain 8
      | Some a =>
          let m := new_patch a v in
          if negb (opt_json_equiv' m impl) then Mismatch 12
          else match m with
               | None => Pass
               | Some p =>
                   if negb (Bool.eqb (validate_with t p) iv) then Mismatch 13
                   else if andb (input_valid (uri_ok_of t) (url_norm_of t) a v) (negb iv) then SpecFail 14
                   else Pass
               end
      end
  end.
