(* Judge for C17 (long-form DIDs). *)
From Coq Require Import ZArith NArith String List Bool.
From Sidetree Require Import Json.Json Sidetree.Composer Sidetree.LongForm Harness.Runner Harness.PatchCases.
Import ListNotations.
Open Scope string_scope.

Record lfv := mk_lfv { lv_did : string; lv_impl : option json; lv_expect : bool }.
Record lfp := mk_lfp { lp_bytes : string; lp_impl : option json; lp_resolves_back : bool }.

Inductive c17case :=
| mk_c17 (oracle : url_table) (ns suffix exp_recovery_c exp_update_c : string) (variants : list lfv) (procs : list lfp)
         (other_handler_resolved own_namespace_resolved non_create_bad : bool)
| mk_c17vdr (distinct : nat) (read_ok id_ok : bool).

Definition jget (k : string) (j : json) : option json := match j with JObj m => lookup k m | _ => None end.

Definition opt_json_equiv2 (a b : option json) : bool :=
  match a, b with
  | Some x, Some y => json_equiv x y
  | None, None => true
  | _, _ => false
  end.

(* what a resolved long-form DID must report *)
Definition result_ok (ns suffix rc uc did : string) (r : json) : bool :=
  let doc := jget "didDocument" r in
  let md := jget "didDocumentMetadata" r in
  let method := match md with Some m => jget "method" m | None => None end in
  opt_json_equiv2 (match doc with Some d => jget "id" d | None => None end) (Some (JStr did)) &&
  (match md with
   | Some m => match jget "equivalentId" m with Some (JArr (JStr e :: _)) => String.eqb e (ns ++ ":" ++ suffix) | _ => false end
   | None => false end) &&
  opt_json_equiv2 (match method with Some m => jget "recoveryCommitment" m | None => None end) (Some (JStr rc)) &&
  opt_json_equiv2 (match method with Some m => jget "updateCommitment" m | None => None end) (Some (JStr uc)) &&
  opt_json_equiv2 (match method with Some m => jget "published" m | None => None end) (Some (JBool false)).

Fixpoint judge_variants17 (t : url_table) (ns suffix rc uc : string) (idx : nat) (l : list lfv) : verdict :=
  match l with
  | [] => Pass
  | v :: r =>
      let resolved := match lv_impl v with Some _ => true | None => false end in
      if negb (Bool.eqb resolved (lv_expect v)) then SpecFail (10 * idx + 1)
      else if negb (opt_json_equiv2 (resolve (uri_ok_of t) (url_norm_of t) ns (lv_did v)) (lv_impl v)) then Mismatch (10 * idx + 2)
      else if andb (Nat.eqb idx 0) (negb (match lv_impl v with Some res => result_ok ns suffix rc uc (lv_did v) res | None => false end))
           then SpecFail (10 * idx + 3)
      else judge_variants17 t ns suffix rc uc (S idx) r
  end.

Fixpoint judge_procs (t : url_table) (ns : string) (idx : nat) (l : list lfp) : verdict :=
  match l with
  | [] => Pass
  | p :: r =>
      match lp_impl p with
      | None =>
          (* refusing is right only when the request is not valid under the protocol (e.g. a
             re-spelling that exceeds the maximum operation size): the model decides *)
          match process_operation (uri_ok_of t) (url_norm_of t) ns (lp_bytes p) with
          | None => judge_procs t ns (S idx) r
          | Some _ => SpecFail (10 * idx + 5)                 (* a valid create request was not processed *)
          end
      | Some res =>
          if negb (lp_resolves_back p) then SpecFail (10 * idx + 6)   (* the returned long-form DID does not resolve *)
          else if negb (opt_json_equiv2 (process_operation (uri_ok_of t) (url_norm_of t) ns (lp_bytes p)) (Some res)) then Mismatch (10 * idx + 7)
          else judge_procs t ns (S idx) r
      end
  end.

Definition judge_c17 (c : c17case) : verdict :=
  match c with
  | mk_c17 t ns suffix rc uc vs ps okx okx2 bad =>
      if okx then SpecFail 901                  (* a handler of another method resolved the DID *)
      else if negb okx2 then SpecFail 902       (* a handler refused a DID of its own namespace *)
      else if bad then SpecFail 903             (* a valid non-create operation was processed or panicked *)
      else match judge_variants17 t ns suffix rc uc 0 vs with
           | Pass => judge_procs t ns 500 ps
           | v => v
           end
  | mk_c17vdr distinct read_ok id_ok =>
      if negb (Nat.eqb distinct 1) then SpecFail 904       (* creation is not deterministic *)
      else if negb read_ok then SpecFail 905
      else if negb id_ok then SpecFail 906
      else Pass
  end.
