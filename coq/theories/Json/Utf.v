(* UTF-8 decoding as Go's []rune(string) does it (invalid byte -> U+FFFD, width 1), UTF-8
   encoding of a code point as strings.Builder.WriteRune, UTF-16 encoding as utf16.Encode. *)
From Coq Require Import NArith List Bool.
Import ListNotations.
Open Scope N_scope.

Definition cont (b : N) : bool := andb (128 <=? b) (b <=? 191).
Definition between (lo b hi : N) : bool := andb (lo <=? b) (b <=? hi).

(* one rune: (code point, remaining bytes) *)
Definition decode_rune (l : list N) : option (N * list N) :=
  match l with
  | [] => None
  | b0 :: r =>
      if b0 <? 128 then Some (b0, r) else
      let bad := Some (65533, r) in
      if between 194 b0 223 then
        match r with
        | b1 :: r1 => if cont b1 then Some ((b0 - 192) * 64 + (b1 - 128), r1) else bad
        | _ => bad
        end
      else if between 224 b0 239 then
        match r with
        | b1 :: b2 :: r2 =>
            let lo := if b0 =? 224 then 160 else 128 in
            let hi := if b0 =? 237 then 159 else 191 in
            if andb (between lo b1 hi) (cont b2)
            then Some ((b0 - 224) * 4096 + (b1 - 128) * 64 + (b2 - 128), r2) else bad
        | _ => bad
        end
      else if between 240 b0 244 then
        match r with
        | b1 :: b2 :: b3 :: r3 =>
            let lo := if b0 =? 240 then 144 else 128 in
            let hi := if b0 =? 244 then 143 else 191 in
            if andb (between lo b1 hi) (andb (cont b2) (cont b3))
            then Some ((b0 - 240) * 262144 + (b1 - 128) * 4096 + (b2 - 128) * 64 + (b3 - 128), r3) else bad
        | _ => bad
        end
      else bad
  end.

Fixpoint utf8_decode (fuel : nat) (l : list N) : list N :=
  match fuel with
  | O => []
  | S f => match decode_rune l with
           | None => []
           | Some (cp, r) => cp :: utf8_decode f r
           end
  end.

Definition is_surrogate (cp : N) : bool := between 55296 cp 57343.

(* WriteRune: surrogates and values above U+10FFFF are written as U+FFFD *)
Definition utf8_encode_cp (cp : N) : list N :=
  let cp := if orb (is_surrogate cp) (1114111 <? cp) then 65533 else cp in
  if cp <? 128 then [cp]
  else if cp <? 2048 then [192 + cp / 64; 128 + cp mod 64]
  else if cp <? 65536 then [224 + cp / 4096; 128 + (cp / 64) mod 64; 128 + cp mod 64]
  else [240 + cp / 262144; 128 + (cp / 4096) mod 64; 128 + (cp / 64) mod 64; 128 + cp mod 64].

Definition utf16_units_cp (cp : N) : list N :=
  if orb (is_surrogate cp) (1114111 <? cp) then [65533]
  else if cp <? 65536 then [cp]
  else let c := cp - 65536 in [55296 + c / 1024; 56320 + c mod 1024].

Definition utf16_of_bytes (l : list N) : list N :=
  flat_map utf16_units_cp (utf8_decode (length l) l).

(* utf16.DecodeRune *)
Definition decode_surrogates (hi lo : N) : N :=
  if andb (between 55296 hi 56319) (between 56320 lo 57343)
  then (hi - 55296) * 1024 + (lo - 56320) + 65536
  else 65533.

(* strict lexicographic order on code unit lists; None = equal *)
Fixpoint units_cmp (a b : list N) : comparison :=
  match a, b with
  | [], [] => Eq
  | [], _ => Lt
  | _, [] => Gt
  | x :: a', y :: b' => match N.compare x y with Eq => units_cmp a' b' | c => c end
  end.

Example utf16_order_differs_from_code_point_order :
  (* U+FB33 (EF AC B3) vs U+1F602 (F0 9F 98 82): code point order says FB33 < 1F602,
     UTF-16 order says D83D... < FB33 *)
  units_cmp (utf16_of_bytes [240; 159; 152; 130]) (utf16_of_bytes [239; 172; 179]) = Lt.
Proof. vm_compute. reflexivity. Qed.
