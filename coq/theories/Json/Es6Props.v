(* The ES6 number layout emits canonical tokens: every token [es6_normalise] produces is a valid
   JSON number literal made of number characters that [es6_normalise] maps to itself
   (parse_number inverts es6_layout).  Consequence (JcsRoundTrip): Transform is idempotent. *)
From Coq Require Import NArith ZArith List Bool String Ascii Lia.
From Sidetree Require Import Base.Sha2 Json.Es6.
Import ListNotations.
Open Scope N_scope.
Open Scope list_scope.

Local Arguments is_digit : simpl never.

Definition digit (d : N) : Prop := d < 10.

Lemma is_digit_dchar d : digit d -> is_digit (d + 48) = true.
Proof. unfold digit, is_digit. intros H. apply andb_true_intro. split; apply N.leb_le; lia. Qed.

Lemma take_digits_digits l : forall d r, take_digits l = (d, r) -> Forall digit d.
Proof.
  induction l as [|b l IH]; intros d r H; cbn in H.
  - injection H as <- <-. constructor.
  - destruct (is_digit b) eqn:Eb.
    + destruct (take_digits l) as [d' r'] eqn:Et. injection H as <- <-. constructor; [|eapply IH; eauto].
      unfold is_digit in Eb. apply andb_prop in Eb as [A B]. apply N.leb_le in A, B. unfold digit. lia.
    + injection H as <- <-. constructor.
Qed.

Definition stops (r : list N) : Prop := match r with [] => True | b :: _ => is_digit b = false end.

Lemma take_digits_dchars ds : Forall digit ds -> forall r, stops r -> take_digits (dchars ds ++ r) = (ds, r).
Proof.
  induction 1 as [|d ds Hd Hds IH]; intros r Hr; cbn.
  - destruct r as [|b r]; auto. cbn in Hr |- *. now rewrite Hr.
  - rewrite (is_digit_dchar d Hd). unfold dchars in IH. rewrite IH; auto. f_equal. f_equal. lia.
Qed.

Lemma dchars_app a b : dchars (a ++ b) = dchars a ++ dchars b.
Proof. unfold dchars. apply map_app. Qed.

Lemma dchars_repeat0 k : dchars (repeat 0 k) = repeat 48 k.
Proof. induction k as [|k IH]; cbn; [reflexivity|]. unfold dchars in IH. now rewrite IH. Qed.

(* ---- leading / trailing zeros ---- *)

Definition nlz (l : list N) : Prop := match l with 0 :: _ => False | _ => True end.

Lemma strip_leading_nlz l : nlz (strip_leading l).
Proof. induction l as [|x l IH]; cbn; auto. destruct x; cbn; auto. Qed.

Lemma strip_leading_id l : nlz l -> strip_leading l = l.
Proof. destruct l as [|x l]; auto. destruct x; cbn; tauto. Qed.

Lemma strip_leading_zeros k l : strip_leading (repeat 0 k ++ l) = strip_leading l.
Proof. induction k; cbn; auto. Qed.

Lemma strip_leading_Forall l : Forall digit l -> Forall digit (strip_leading l).
Proof. induction 1 as [|x l Hx Hl IH]; cbn; auto. destruct x; auto. Qed.

Lemma strip_leading_suffix l : exists z, l = repeat 0 z ++ strip_leading l.
Proof.
  induction l as [|x l [z IH]]; [exists 0%nat; reflexivity|].
  destruct x; [exists (S z); cbn; congruence|exists 0%nat; reflexivity].
Qed.

Lemma rev_repeat (x : N) k : rev (repeat x k) = repeat x k.
Proof.
  induction k as [|k IH]; cbn; auto. rewrite IH. clear IH. induction k as [|k IH]; cbn; congruence.
Qed.

(* significant digits: non-empty, no leading zero, no trailing zero *)
Definition sig_ok (s : list N) : Prop := Forall digit s /\ s <> [] /\ nlz s /\ nlz (rev s).

Lemma strip_trailing_sig l : Forall digit l -> nlz l -> fst (strip_trailing l) <> [] -> sig_ok (fst (strip_trailing l)).
Proof.
  intros Hd Hn Hne. unfold strip_trailing in *. cbn [fst] in *.
  destruct (strip_leading_suffix (rev l)) as [z Hz]. set (r := strip_leading (rev l)) in *.
  assert (Hl : l = rev r ++ repeat 0 z).
  { rewrite <- (rev_involutive l), Hz, rev_app_distr, rev_repeat. reflexivity. }
  repeat split; auto.
  - apply Forall_rev. apply strip_leading_Forall. now apply Forall_rev.
  - destruct (rev r) as [|x t] eqn:Er; [congruence|]. rewrite Hl in Hn. cbn in Hn. exact Hn.
  - rewrite rev_involutive. apply strip_leading_nlz.
Qed.

Lemma strip_trailing_ok s z : nlz (rev s) -> strip_trailing (s ++ repeat 0 z) = (s, Z.of_nat z).
Proof.
  intros H. unfold strip_trailing. rewrite rev_app_distr, rev_repeat, strip_leading_zeros, (strip_leading_id _ H), rev_involutive.
  f_equal. rewrite app_length, repeat_length, rev_length. f_equal. lia.
Qed.

Lemma strip_trailing_ok0 s : nlz (rev s) -> strip_trailing s = (s, 0%Z).
Proof. intros H. rewrite <- (app_nil_r s) at 1. apply (strip_trailing_ok s 0 H). Qed.

(* ---- parse_number, in named pieces ---- *)

Definition split_sign (l : list N) : bool * list N := match l with 45 :: r => (true, r) | _ => (false, l) end.

Definition frac_part (l2 : list N) : list N * list N * bool :=
  match l2 with
  | 46 :: r => let '(f, r') := take_digits r in (f, r', negb (Nat.eqb (List.length f) 0))
  | _ => ([], l2, true)
  end.

Definition exp_part (l3 : list N) : option Z :=
  match l3 with
  | e :: r =>
      if orb (e =? 101) (e =? 69) then
        let '(sneg, r1) := match r with 45 :: r' => (true, r') | 43 :: r' => (false, r') | _ => (false, r) end in
        let '(ed, r2) := take_digits r1 in
        match ed, r2 with
        | _ :: _, [] => Some (if sneg then (- digits_to_Z 0 ed)%Z else digits_to_Z 0 ed)
        | _, _ => None
        end
      else None
  | [] => Some 0%Z
  end.

Definition finish (neg : bool) (ip fp : list N) (e : Z) : option (bool * list N * Z) :=
  let all := strip_leading (ip ++ fp) in
  let '(sig, tz) := strip_trailing all in
  let n := (Z.of_nat (List.length all) + e - Z.of_nat (List.length fp))%Z in
  Some (neg, sig, n).

Definition parse_unsigned (neg : bool) (l1 : list N) : option (bool * list N * Z) :=
  let '(ip, l2) := take_digits l1 in
  match ip with
  | [] => None
  | 0 :: _ :: _ => None
  | _ =>
    let '(fp, l3, okf) := frac_part l2 in
    if negb okf then None else
    match exp_part l3 with
    | None => None
    | Some e => finish neg ip fp e
    end
  end.

Lemma parse_number_eq l : parse_number l = let '(neg, l1) := split_sign l in parse_unsigned neg l1.
Proof. reflexivity. Qed.

Lemma ip_match {A} (ip : list N) (none x : A) : ip <> [] -> (nlz ip \/ ip = [0]) ->
  match ip with [] => none | 0 :: _ :: _ => none | _ => x end = x.
Proof.
  intros Hne [H| ->]; auto. destruct ip as [|d r]; [congruence|]. destruct d; [cbn in H; tauto|reflexivity].
Qed.

Lemma split_sign_pos c r : c <> 45 -> split_sign (c :: r) = (false, c :: r).
Proof.
  intros H. unfold split_sign. destruct c as [|p]; auto.
  do 6 (destruct p as [p|p|]; try reflexivity). all: try congruence; destruct p; reflexivity.
Qed.

Lemma length_nonempty {A} (l : list A) : l <> [] -> negb (Nat.eqb (List.length l) 0) = true.
Proof. destruct l; [congruence|reflexivity]. Qed.

Section Layout.
  Variable neg : bool.
  Variable sig : list N.
  Hypothesis Hsig : sig_ok sig.
  Let k := Z.of_nat (List.length sig).

  Lemma sig_first : exists s0 st, sig = s0 :: st /\ s0 <> 0 /\ digit s0.
  Proof.
    destruct Hsig as [Hd [Hne [Hn _]]]. destruct sig as [|s0 st]; [congruence|]. exists s0, st. repeat split.
    - intros ->. exact Hn.
    - now inversion Hd.
  Qed.

  (* integer layout: digits followed by zeros *)
  Lemma parse_int z : parse_unsigned neg (dchars sig ++ repeat 48 z) = Some (neg, sig, (k + Z.of_nat z)%Z).
  Proof.
    destruct Hsig as [Hd [Hne [Hn Hr]]].
    unfold parse_unsigned. rewrite <- dchars_repeat0, <- dchars_app, <- (app_nil_r (dchars _)).
    rewrite take_digits_dchars; [|apply Forall_app; split; auto; clear; induction z; constructor; auto; unfold digit; lia|exact I].
    assert (Hn' : nlz (sig ++ repeat 0 z)) by (destruct sig; [congruence|exact Hn]).
    rewrite ip_match; [|destruct sig; [congruence|discriminate]|now left].
    cbn [frac_part negb exp_part]. unfold finish. rewrite app_nil_r, (strip_leading_id _ Hn'), (strip_trailing_ok _ _ Hr).
    rewrite app_length, repeat_length. cbn [List.length]. f_equal. f_equal. unfold k. lia.
  Qed.

  (* point inside the digits *)
  Lemma parse_point (n : nat) : (0 < n < List.length sig)%nat ->
    parse_unsigned neg (dchars (firstn n sig) ++ [46] ++ dchars (skipn n sig)) = Some (neg, sig, Z.of_nat n).
  Proof.
    intros Hn. destruct Hsig as [Hd [Hne [Hnl Hr]]].
    assert (Hf : Forall digit (firstn n sig)) by (rewrite <- (firstn_skipn n sig) in Hd; now apply Forall_app in Hd).
    assert (Hs : Forall digit (skipn n sig)) by (rewrite <- (firstn_skipn n sig) in Hd; now apply Forall_app in Hd).
    unfold parse_unsigned. rewrite take_digits_dchars; auto; [|reflexivity].
    assert (Hfn : firstn n sig <> []) by (destruct sig; [congruence|]; destruct n; [lia|discriminate]).
    rewrite ip_match; auto; [|left; destruct sig; [congruence|]; destruct n; [lia|exact Hnl]].
    cbn [app frac_part]. rewrite <- (app_nil_r (dchars (skipn n sig))), take_digits_dchars; auto; [|exact I].
    assert (Hsn : skipn n sig <> []).
    { intros E. apply (f_equal (@List.length N)) in E. rewrite skipn_length in E. cbn in E. lia. }
    rewrite (length_nonempty _ Hsn). cbn [negb exp_part]. unfold finish.
    rewrite firstn_skipn, (strip_leading_id _ Hnl), (strip_trailing_ok0 _ Hr), skipn_length. f_equal. f_equal. lia.
  Qed.

  (* 0.000ddd *)
  Lemma parse_small z : parse_unsigned neg ([48; 46] ++ repeat 48 z ++ dchars sig) = Some (neg, sig, (- Z.of_nat z)%Z).
  Proof.
    destruct Hsig as [Hd [Hne [Hnl Hr]]].
    unfold parse_unsigned. change ([48; 46] ++ repeat 48 z ++ dchars sig) with (dchars [0] ++ 46 :: (repeat 48 z ++ dchars sig)).
    rewrite take_digits_dchars; [|repeat constructor; unfold digit; lia|reflexivity].
    cbv beta match.
    cbn [frac_part]. rewrite <- dchars_repeat0, <- dchars_app, <- (app_nil_r (dchars _)).
    rewrite take_digits_dchars; [|apply Forall_app; split; auto; clear; induction z; constructor; auto; unfold digit; lia|exact I].
    rewrite length_nonempty; [|destruct z; [exact Hne|discriminate]]. cbn [negb exp_part]. unfold finish.
    change ([0] ++ repeat 0 z ++ sig) with (repeat 0 (S z) ++ sig).
    rewrite strip_leading_zeros, (strip_leading_id _ Hnl), (strip_trailing_ok0 _ Hr), app_length, repeat_length. f_equal. f_equal. lia.
  Qed.
End Layout.

(* ---- exponent digits ---- *)

Lemma digits_to_Z_Zdigits fuel : forall z acc, (0 <= z < 10 ^ Z.of_nat fuel)%Z ->
  digits_to_Z 0 (Zdigits fuel z acc) = digits_to_Z z acc.
Proof.
  induction fuel as [|f IH]; intros z acc Hz.
  - cbn in *. assert (z = 0%Z) as -> by lia. reflexivity.
  - cbn [Zdigits]. destruct (z <? 10)%Z eqn:E.
    + cbn [digits_to_Z]. apply Z.ltb_lt in E. rewrite Z2N.id by lia. f_equal.
    + apply Z.ltb_ge in E. rewrite IH.
      * cbn [digits_to_Z]. rewrite Z2N.id by (apply Z.mod_pos_bound; lia). f_equal.
        pose proof (Z.div_mod z 10). lia.
      * rewrite Nat2Z.inj_succ, Z.pow_succ_r in Hz by lia. split; [apply Z.div_pos; lia|].
        apply Z.div_lt_upper_bound; lia.
Qed.

Lemma Zdigits_digits fuel : forall z acc, (0 <= z)%Z -> Forall digit acc -> Forall digit (Zdigits fuel z acc).
Proof.
  induction fuel as [|f IH]; intros z acc Hz Ha; cbn [Zdigits]; auto.
  destruct (z <? 10)%Z eqn:E.
  - apply Z.ltb_lt in E. constructor; auto. unfold digit. lia.
  - apply IH; [apply Z.div_pos; lia|]. constructor; auto. unfold digit. pose proof (Z.mod_pos_bound z 10). lia.
Qed.

Lemma Zdigits_nonempty f z : exists d ds, Zdigits (S f) z [] = d :: ds.
Proof.
  assert (G : forall fuel z acc, acc <> [] -> Zdigits fuel z acc <> []).
  { induction fuel as [|g IH]; intros z' acc Ha; cbn [Zdigits]; auto. destruct (z' <? 10)%Z; [discriminate|]. apply IH. discriminate. }
  cbn [Zdigits]. destruct (z <? 10)%Z; [eauto|].
  destruct (Zdigits f (z / 10) [Z.to_N (z mod 10)]) as [|d ds] eqn:E; [|eauto]. exfalso. eapply G; [|exact E]. discriminate.
Qed.

Section Exponent.
  Variable neg : bool.
  Variable sig : list N.
  Hypothesis Hsig : sig_ok sig.

  Definition mantissa : list N :=
    match sig with
    | [d] => dchars [d]
    | d :: r => dchars [d] ++ [46] ++ dchars r
    | [] => []
    end.

  Lemma exp_part_layout e : (Z.abs e < 10 ^ 20)%Z ->
    exp_part ([101] ++ (if (e <? 0)%Z then [45] else [43]) ++ dchars (Zdigits 20 (Z.abs e) [])) = Some e.
  Proof.
    intros He. destruct (Zdigits_nonempty 19 (Z.abs e)) as [d [ds Ed]].
    assert (Hd : Forall digit (Zdigits 20 (Z.abs e) [])) by (apply Zdigits_digits; [lia|constructor]).
    assert (Hv : digits_to_Z 0 (Zdigits 20 (Z.abs e) []) = Z.abs e) by (apply digits_to_Z_Zdigits; lia).
    cbn [app exp_part]. change (orb (101 =? 101) (101 =? 69)) with true. cbv iota.
    destruct (e <? 0)%Z eqn:E; cbn [app]; cbv beta match;
      rewrite <- (app_nil_r (dchars _)), take_digits_dchars; auto; try exact I; cbv beta match; rewrite Ed in *; cbv beta match; rewrite Hv; f_equal.
    - apply Z.ltb_lt in E. lia.
    - apply Z.ltb_ge in E. lia.
  Qed.

  Lemma parse_exp e : (Z.abs e < 10 ^ 20)%Z ->
    parse_unsigned neg (mantissa ++ [101] ++ (if (e <? 0)%Z then [45] else [43]) ++ dchars (Zdigits 20 (Z.abs e) []))
    = Some (neg, sig, (e + 1)%Z).
  Proof.
    intros He. destruct Hsig as [Hd [Hne [Hnl Hr]]]. pose proof (exp_part_layout e He) as Hx.
    unfold parse_unsigned, mantissa. destruct sig as [|d r]; [congruence|].
    assert (Hd0 : digit d) by now inversion Hd. assert (Hdr : Forall digit r) by now inversion Hd.
    assert (Hnz : d <> 0) by (intros ->; exact Hnl).
    destruct d as [|p]; [congruence|].
    destruct r as [|d2 r].
    - rewrite take_digits_dchars; [|repeat constructor; auto|reflexivity]. cbv beta match.
      cbn [app] in Hx. cbn [app frac_part]. cbv beta match. cbn [negb]. rewrite Hx. unfold finish. cbn [app].
      rewrite (strip_leading_id [N.pos p]) by exact I. rewrite (strip_trailing_ok0 _ Hr). cbn [List.length]. f_equal. f_equal. lia.
    - rewrite <- !app_assoc. rewrite take_digits_dchars; [|repeat constructor; auto|reflexivity]. cbv beta match.
      cbn [app frac_part]. rewrite take_digits_dchars; auto; [|reflexivity]. cbv beta match.
      cbn [app] in Hx. cbn [List.length Nat.eqb negb]. rewrite Hx. unfold finish.
      change ([N.pos p] ++ d2 :: r) with (N.pos p :: d2 :: r). rewrite (strip_leading_id _ Hnl), (strip_trailing_ok0 _ Hr). cbn [List.length]. f_equal. f_equal. lia.
  Qed.
End Exponent.

Lemma parse_unsigned_head b body x : parse_unsigned b body = Some x -> split_sign body = (false, body).
Proof.
  intros H. destruct body as [|c r]; [reflexivity|]. apply split_sign_pos. intros ->.
  unfold parse_unsigned in H. cbn in H. discriminate.
Qed.

(* parse_number inverts the layout *)
Theorem layout_parse neg sig n : sig_ok sig -> (-1000 <= n <= 1000)%Z -> parse_number (es6_layout neg sig n) = Some (neg, sig, n).
Proof.
  intros Hs Hn. rewrite parse_number_eq. unfold es6_layout.
  set (k := Z.of_nat (List.length sig)).
  match goal with |- context [(if neg then [45] else []) ++ ?b] => set (body := b) end.
  assert (Hb : parse_unsigned neg body = Some (neg, sig, n)).
  { subst body. destruct (andb (k <=? n) (n <=? 21))%Z eqn:EA.
    - apply andb_prop in EA as [A1 A2]. apply Z.leb_le in A1, A2. rewrite (parse_int neg sig Hs). f_equal. f_equal. fold k. lia.
    - destruct (andb (0 <? n) (n <=? 21))%Z eqn:EB.
      + apply andb_prop in EB as [B1 B2]. apply Z.ltb_lt in B1. apply Z.leb_le in B2.
        apply andb_false_iff in EA. rewrite (parse_point neg sig Hs (Z.to_nat n)); [f_equal; f_equal; lia|].
        destruct EA as [EA|EA]; [apply Z.leb_gt in EA|apply Z.leb_gt in EA]; subst k; lia.
      + destruct (andb (-6 <? n) (n <=? 0))%Z eqn:EC.
        * apply andb_prop in EC as [C1 C2]. apply Z.leb_le in C2. rewrite (parse_small neg sig Hs). f_equal. f_equal. lia.
        * fold (mantissa sig). rewrite (parse_exp neg sig Hs (n - 1)); [f_equal; f_equal; lia|]. change (10 ^ 20)%Z with 100000000000000000000%Z. lia. }
  destruct neg.
  - cbn [app split_sign]. exact Hb.
  - cbn [app]. rewrite (parse_unsigned_head _ _ _ Hb). exact Hb.
Qed.

(* ---- what parse_number returns ---- *)

Lemma frac_part_digits l2 fp l3 okf : frac_part l2 = (fp, l3, okf) -> Forall digit fp.
Proof.
  unfold frac_part. destruct l2 as [|c r]; [intros H; injection H as <- _ _; constructor|].
  destruct (N.eq_dec c 46) as [->|Hc].
  - destruct (take_digits r) as [f r'] eqn:Et. intros H. injection H as <- _ _. eapply take_digits_digits; eauto.
  - assert (E : match c with 46 => (let '(f, r') := take_digits r in (f, r', negb (Nat.eqb (List.length f) 0))) | _ => ([], c :: r, true) end
                = ([], c :: r, true)).
    { destruct c as [|p]; auto. do 6 (destruct p as [p|p|]; try reflexivity). all: try congruence; destruct p; reflexivity. }
    rewrite E. intros H. injection H as <- _ _. constructor.
Qed.

Theorem parse_number_sig l neg sig n : parse_number l = Some (neg, sig, n) -> sig <> [] -> sig_ok sig.
Proof.
  rewrite parse_number_eq. destruct (split_sign l) as [b l1]. unfold parse_unsigned.
  destruct (take_digits l1) as [ip l2] eqn:Et. pose proof (take_digits_digits _ _ _ Et) as Hip.
  intros H Hne.
  assert (H' : (let '(fp, l3, okf) := frac_part l2 in
                if negb okf then None else match exp_part l3 with Some e => finish b ip fp e | None => None end) = Some (neg, sig, n)).
  { destruct ip as [|d r]; [discriminate|]. destruct d; [destruct r; [exact H|discriminate]|exact H]. }
  clear H. destruct (frac_part l2) as [[fp l3] okf] eqn:Ef. pose proof (frac_part_digits _ _ _ _ Ef) as Hfp.
  destruct (negb okf); [discriminate|]. destruct (exp_part l3) as [e|]; [|discriminate].
  unfold finish in H'. destruct (strip_trailing (strip_leading (ip ++ fp))) as [s tz] eqn:Es. injection H' as _ <- _.
  replace s with (fst (strip_trailing (strip_leading (ip ++ fp)))) in * by now rewrite Es.
  apply strip_trailing_sig; auto; [|apply strip_leading_nlz]. apply strip_leading_Forall, Forall_app. auto.
Qed.

(* ---- the bytes of a layout ---- *)

Definition numbyte (n : N) : bool :=
  orb (andb (48 <=? n)%N (n <=? 57)%N)
      (orb (orb (n =? 43)%N (n =? 45)%N) (orb (n =? 46)%N (orb (n =? 101)%N (n =? 69)%N))).

Lemma numbyte_lt n : numbyte n = true -> n < 256.
Proof.
  unfold numbyte. intros H. repeat (apply orb_prop in H as [H|H]); try (apply N.eqb_eq in H; lia).
  apply andb_prop in H as [_ H]. apply N.leb_le in H. lia.
Qed.

Lemma numbyte_dchars ds : Forall digit ds -> Forall (fun b => numbyte b = true) (dchars ds).
Proof.
  induction 1 as [|d ds Hd _ IH]; cbn; constructor; auto. unfold numbyte, digit in *.
  apply orb_true_intro. left. apply andb_true_intro. split; apply N.leb_le; lia.
Qed.

Lemma numbyte_repeat48 k : Forall (fun b => numbyte b = true) (repeat 48 k).
Proof. induction k; cbn; constructor; auto. Qed.

Lemma layout_numbytes neg sig n : Forall digit sig -> Forall (fun b => numbyte b = true) (es6_layout neg sig n).
Proof.
  intros Hd. unfold es6_layout.
  assert (Hf : forall m, Forall digit (firstn m sig)) by (intros m; rewrite <- (firstn_skipn m sig) in Hd; now apply Forall_app in Hd).
  assert (Hs : forall m, Forall digit (skipn m sig)) by (intros m; rewrite <- (firstn_skipn m sig) in Hd; now apply Forall_app in Hd).
  apply Forall_app. split; [destruct neg; repeat constructor|].
  repeat match goal with |- context [if ?c then _ else _] => destruct c end;
    repeat (apply Forall_app; split); auto using numbyte_dchars, numbyte_repeat48; try (repeat constructor; fail).
  - destruct sig as [|d [|d2 r]]; [constructor|apply numbyte_dchars; auto|].
    inversion Hd as [|? ? H1 H2]; subst; inversion H2; subst. repeat (apply Forall_app; split); try (apply numbyte_dchars; repeat constructor; auto); repeat constructor.
  - apply numbyte_dchars, Zdigits_digits; [lia|constructor].
  - destruct sig as [|d [|d2 r]]; [constructor|apply numbyte_dchars; auto|].
    inversion Hd as [|? ? H1 H2]; subst; inversion H2; subst. repeat (apply Forall_app; split); try (apply numbyte_dchars; repeat constructor; auto); repeat constructor.
  - apply numbyte_dchars, Zdigits_digits; [lia|constructor].
Qed.

Lemma bytes_string_roundtrip l : Forall (fun b => b < 256) l -> bytes_of_string (string_of_bytes l) = l.
Proof.
  unfold bytes_of_string, string_of_bytes. induction 1 as [|b l Hb _ IH]; cbn; auto.
  rewrite N_ascii_embedding by exact Hb. f_equal. exact IH.
Qed.

Lemma layout_nonempty neg sig n : sig <> [] -> es6_layout neg sig n <> [].
Proof.
  intros Hne E. apply (f_equal (@List.length N)) in E. unfold es6_layout in E.
  repeat rewrite app_length in E. destruct sig as [|d r]; [congruence|].
  repeat match type of E with context [if ?c then _ else _] => destruct c end; cbn in E; try lia.
  all: destruct r; cbn in E; try rewrite app_length in E; cbn in E; lia.
Qed.

(* what es6_normalise returns, re-normalised, is itself *)
Theorem es6_normalise_bytes_idem l out : es6_normalise_bytes l = Some out ->
  out <> [] /\ Forall (fun b => numbyte b = true) out /\ es6_normalise_bytes out = Some out.
Proof.
  unfold es6_normalise_bytes at 1. destruct (parse_number l) as [[[neg sig] n]|] eqn:Ep; [|discriminate].
  destruct sig as [|d r] eqn:Es.
  - intros H. injection H as <-. repeat split; [discriminate|repeat constructor].
  - rewrite <- Es in *. assert (Hne : sig <> []) by (rewrite Es; discriminate).
    destruct (in_exact_class sig n) eqn:Ec; [|discriminate]. intros H. injection H as <-.
    pose proof (parse_number_sig _ _ _ _ Ep Hne) as Hs.
    assert (Hn : (-1000 <= n <= 1000)%Z).
    { unfold in_exact_class in Ec. apply andb_prop in Ec as [_ Ec]. apply andb_prop in Ec as [A B]. apply Z.leb_le in A, B. lia. }
    repeat split.
    + now apply layout_nonempty.
    + apply layout_numbytes. apply Hs.
    + unfold es6_normalise_bytes. rewrite (layout_parse neg sig n Hs Hn). rewrite Ec. clear - Hne. destruct sig; [congruence|reflexivity].
Qed.
