(* A strict RFC 8259 parser producing JSON trees that keep member order, duplicates and the raw
   number literals.  Used (a) with number normalisation and duplicate rejection as the mirror of
   jsoncanonicalizer.Transform on valid JSON, (b) as the front end of the encoding/json struct
   decoding mirror.  Recursion is on explicit fuel; [POutOfFuel] is a distinct outcome and
   [fuel_for] is sufficient (every call consumes at least one input byte). *)
From Coq Require Import NArith String Ascii List Bool.
From Sidetree Require Import Base.Sha2 Json.Json Json.Utf Json.Es6 Json.Jcs.
Import ListNotations.
Open Scope string_scope.

Inductive presult (A : Type) :=
| PR (a : A) (rest : string)
| PFail
| POutOfFuel.
Arguments PR {A} a rest.
Arguments PFail {A}.
Arguments POutOfFuel {A}.

Definition is_ws (c : ascii) : bool :=
  let n := N_of_ascii c in orb (orb (n =? 32)%N (n =? 10)%N) (orb (n =? 13)%N (n =? 9)%N).

Fixpoint skip_ws (s : string) : string :=
  match s with
  | String c r => if is_ws c then skip_ws r else s
  | EmptyString => s
  end.

Definition hexv (c : ascii) : option N :=
  let n := N_of_ascii c in
  if andb (48 <=? n)%N (n <=? 57)%N then Some (n - 48)%N
  else if andb (97 <=? n)%N (n <=? 102)%N then Some (n - 87)%N
  else if andb (65 <=? n)%N (n <=? 70)%N then Some (n - 55)%N
  else None.

Definition hex4 (s : string) : option (N * string) :=
  match s with
  | String a (String b (String c (String d r))) =>
      match hexv a, hexv b, hexv c, hexv d with
      | Some x, Some y, Some z, Some w => Some ((x * 4096 + y * 256 + z * 16 + w)%N, r)
      | _, _, _, _ => None
      end
  | _ => None
  end.

Definition str_of_cp (cp : N) : string := string_of_bytes (utf8_encode_cp cp).

(* body of a string literal, after the opening quote; returns the decoded bytes *)
Fixpoint parse_string_body (fuel : nat) (s : string) : option (string * string) :=
  match fuel with
  | O => None
  | S f =>
    match s with
    | EmptyString => None
    | String c r =>
        let n := N_of_ascii c in
        if (n =? 34)%N then Some ("", r)
        else if (n <? 32)%N then None
        else if (n =? 92)%N then
          match r with
          | String e r2 =>
              let en := N_of_ascii e in
              let simple (b : N) :=
                match parse_string_body f r2 with
                | Some (t, rest) => Some (String (ascii_of_N b) t, rest)
                | None => None
                end in
              if (en =? 117)%N then                                  (* \u *)
                match hex4 r2 with
                | None => None
                | Some (u, r3) =>
                    if is_surrogate u then
                      match r3 with
                      | String b1 (String b2 r4) =>
                          if andb (N_of_ascii b1 =? 92)%N (N_of_ascii b2 =? 117)%N then
                            match hex4 r4 with
                            | Some (u2, r5) =>
                                match parse_string_body f r5 with
                                | Some (t, rest) => Some (str_of_cp (decode_surrogates u u2) ++ t, rest)
                                | None => None
                                end
                            | None => None
                            end
                          else None
                      | _ => None
                      end
                    else
                      match parse_string_body f r3 with
                      | Some (t, rest) => Some (str_of_cp u ++ t, rest)
                      | None => None
                      end
                end
              else if (en =? 34)%N then simple 34%N
              else if (en =? 92)%N then simple 92%N
              else if (en =? 47)%N then simple 47%N
              else if (en =? 98)%N then simple 8%N
              else if (en =? 102)%N then simple 12%N
              else if (en =? 110)%N then simple 10%N
              else if (en =? 114)%N then simple 13%N
              else if (en =? 116)%N then simple 9%N
              else None
          | EmptyString => None
          end
        else
          match parse_string_body f r with
          | Some (t, rest) => Some (String c t, rest)
          | None => None
          end
    end
  end.

Definition is_numchar (c : ascii) : bool :=
  let n := N_of_ascii c in
  orb (andb (48 <=? n)%N (n <=? 57)%N)
      (orb (orb (n =? 43)%N (n =? 45)%N) (orb (n =? 46)%N (orb (n =? 101)%N (n =? 69)%N))).

Fixpoint take_num (s : string) : string * string :=
  match s with
  | String c r => if is_numchar c then let '(t, rest) := take_num r in (String c t, rest) else ("", s)
  | EmptyString => ("", "")
  end.

Fixpoint strip_prefix (p s : string) : option string :=
  match p, s with
  | EmptyString, _ => Some s
  | String a p', String b s' => if Ascii.eqb a b then strip_prefix p' s' else None
  | _, EmptyString => None
  end.

Definition valid_number_literal (t : string) : bool :=
  match parse_number (bytes_of_string t) with Some _ => true | None => false end.

Fixpoint parse_value (fuel : nat) (s : string) {struct fuel} : presult json :=
  match fuel with
  | O => POutOfFuel
  | S f =>
    match skip_ws s with
    | EmptyString => PFail
    | String c r =>
        let n := N_of_ascii c in
        if (n =? 123)%N then                                           (* { *)
          match skip_ws r with
          | String c2 r2 => if (N_of_ascii c2 =? 125)%N then PR (JObj []) r2 else parse_members f r []
          | EmptyString => PFail
          end
        else if (n =? 91)%N then                                       (* [ *)
          match skip_ws r with
          | String c2 r2 => if (N_of_ascii c2 =? 93)%N then PR (JArr []) r2 else parse_elements f r []
          | EmptyString => PFail
          end
        else if (n =? 34)%N then
          match parse_string_body (String.length r + 1) r with
          | Some (t, rest) => PR (JStr t) rest
          | None => PFail
          end
        else
          match strip_prefix "true" (String c r) with
          | Some rest => PR (JBool true) rest
          | None =>
          match strip_prefix "false" (String c r) with
          | Some rest => PR (JBool false) rest
          | None =>
          match strip_prefix "null" (String c r) with
          | Some rest => PR JNull rest
          | None =>
              let '(t, rest) := take_num (String c r) in
              if valid_number_literal t then PR (JNum t) rest else PFail
          end end end
    end
  end
with parse_elements (fuel : nat) (s : string) (acc : list json) {struct fuel} : presult json :=
  match fuel with
  | O => POutOfFuel
  | S f =>
    match parse_value f s with
    | PR v rest =>
        match skip_ws rest with
        | String c r =>
            if (N_of_ascii c =? 44)%N then parse_elements f r (v :: acc)
            else if (N_of_ascii c =? 93)%N then PR (JArr (rev (v :: acc))) r
            else PFail
        | EmptyString => PFail
        end
    | PFail => PFail
    | POutOfFuel => POutOfFuel
    end
  end
with parse_members (fuel : nat) (s : string) (acc : list (string * json)) {struct fuel} : presult json :=
  match fuel with
  | O => POutOfFuel
  | S f =>
    match skip_ws s with
    | String q r =>
        if negb (N_of_ascii q =? 34)%N then PFail else
        match parse_string_body (String.length r + 1) r with
        | None => PFail
        | Some (k, rest) =>
            match skip_ws rest with
            | String c r2 =>
                if negb (N_of_ascii c =? 58)%N then PFail else
                match parse_value f r2 with
                | PR v rest2 =>
                    match skip_ws rest2 with
                    | String c3 r3 =>
                        if (N_of_ascii c3 =? 44)%N then parse_members f r3 ((k, v) :: acc)
                        else if (N_of_ascii c3 =? 125)%N then PR (JObj (rev ((k, v) :: acc))) r3
                        else PFail
                    | EmptyString => PFail
                    end
                | PFail => PFail
                | POutOfFuel => POutOfFuel
                end
            | EmptyString => PFail
            end
        end
    | EmptyString => PFail
    end
  end.

Definition fuel_for (s : string) : nat := 2 * String.length s + 2.

(* whole-input parse: Some v, or None on a syntax error *)
Definition parse_json (s : string) : option json :=
  match parse_value (fuel_for s) s with
  | PR v rest => match skip_ws rest with EmptyString => Some v | _ => None end
  | _ => None
  end.

(* ---- number normalisation over a tree: None = some number is outside the exact class ---- *)

Fixpoint normalise_numbers (j : json) : option json :=
  match j with
  | JNum t => match es6_normalise t with Some t' => Some (JNum t') | None => None end
  | JArr l =>
      match (fix go (l : list json) : option (list json) :=
               match l with
               | [] => Some []
               | x :: r => match normalise_numbers x, go r with
                           | Some x', Some r' => Some (x' :: r')
                           | _, _ => None
                           end
               end) l with
      | Some l' => Some (JArr l')
      | None => None
      end
  | JObj m =>
      match (fix go (m : list (string * json)) : option (list (string * json)) :=
               match m with
               | [] => Some []
               | (k, v) :: r => match normalise_numbers v, go r with
                                | Some v', Some r' => Some ((k, v') :: r')
                                | _, _ => None
                                end
               end) m with
      | Some m' => Some (JObj m')
      | None => None
      end
  | _ => Some j
  end.

(* ---- jsoncanonicalizer.Transform on valid JSON text ---- *)

(* Transform refuses documents nested deeper than this many levels (fix c362f28; the constant is
   regenerated from the source and proved equal in Agree/AgreeTables.v).  The model has no such
   limit: its theorems speak about documents within it, and what the implementation does beyond
   it - a prompt error - is checked by the C19 stream. *)
Definition max_nesting_depth : N := 10000%N.

Inductive tres := TOk (out : string) | TErr | TOutOfDomain.

Definition transform (s : string) : tres :=
  match parse_json s with
  | None => TErr
  | Some v =>
      match v with
      | JObj _ | JArr _ =>
          match normalise_numbers v with
          | None => TOutOfDomain
          | Some v' => match jcs v' with Some out => TOk out | None => TErr end
          end
      | _ => TErr                                  (* top level must be an object or an array *)
      end
  end.

Example parse_example :
  parse_json "{ ""a"" : [1, 2.50, ""xé\n""], ""b"":{""c"":null,""c"":true} }" =
  Some (JObj [("a", JArr [JNum "1"; JNum "2.50"; JStr (String "x" (String (ascii_of_N 195) (String (ascii_of_N 169) (String (ascii_of_N 10) ""))))]);
              ("b", JObj [("c", JNull); ("c", JBool true)])]).
Proof. vm_compute. reflexivity. Qed.

Example transform_example :
  transform " {""b"":1.0,""a"":[true , 1E2]} " = TOk "{""a"":[true,100],""b"":1}".
Proof. vm_compute. reflexivity. Qed.
