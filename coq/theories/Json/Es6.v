(* ECMAScript Number::toString layout for JSON number literals in the *exact class*
   (at most 15 significant decimal digits, decimal exponent within +-290): for these,
   decimal -> float64 -> shortest decimal is the identity on the digit string, so the
   canonical token is a function of the literal alone.  Outside the class: None (the shortest
   digits of the double are Go's strconv algorithm - oracle, see DESIGN C05). *)
From Coq Require Import NArith ZArith List Bool String Ascii.
From Sidetree Require Import Base.Sha2.
Import ListNotations.
Open Scope N_scope.

Definition is_digit (b : N) : bool := andb (48 <=? b) (b <=? 57).

Fixpoint take_digits (l : list N) : list N * list N :=
  match l with
  | b :: r => if is_digit b then let '(d, rest) := take_digits r in ((b - 48) :: d, rest) else ([], l)
  | [] => ([], [])
  end.

Fixpoint digits_to_Z (acc : Z) (d : list N) : Z :=
  match d with [] => acc | x :: r => digits_to_Z (acc * 10 + Z.of_N x)%Z r end.

Fixpoint strip_leading (d : list N) : list N :=
  match d with 0 :: r => strip_leading r | _ => d end.

Definition strip_trailing (d : list N) : list N * Z :=
  let r := strip_leading (rev d) in (rev r, Z.of_nat (List.length d - List.length r)).

(* JSON number grammar -> (negative, significant digits, n) with value = 0.DIGITS * 10^n *)
Definition parse_number (l : list N) : option (bool * list N * Z) :=
  let '(neg, l1) := match l with 45 :: r => (true, r) | _ => (false, l) end in
  let '(ip, l2) := take_digits l1 in
  match ip with
  | [] => None
  | 0 :: _ :: _ => None                       (* leading zero *)
  | _ =>
    let '(fp, l3, okf) :=
      match l2 with
      | 46 :: r => let '(f, r') := take_digits r in (f, r', negb (Nat.eqb (List.length f) 0))
      | _ => ([], l2, true)
      end in
    if negb okf then None else
    let ex :=
      match l3 with
      | e :: r =>
          if orb (e =? 101) (e =? 69) then
            let '(sneg, r1) := match r with 45 :: r' => (true, r') | 43 :: r' => (false, r') | _ => (false, r) end in
            let '(ed, r2) := take_digits r1 in
            match ed, r2 with
            | _ :: _, [] => Some (if sneg then (- digits_to_Z 0 ed)%Z else digits_to_Z 0 ed)
            | _, _ => None
            end
          else None
      | [] => Some 0%Z
      end in
    match ex with
    | None => None
    | Some e =>
        let all := strip_leading (ip ++ fp) in
        let '(sig, tz) := strip_trailing all in
        (* value = all * 10^(e - |fp|); n = |all| + e - |fp| *)
        let n := (Z.of_nat (List.length all) + e - Z.of_nat (List.length fp))%Z in
        Some (neg, sig, n)
    end
  end.

Definition dchars (d : list N) : list N := map (fun x => x + 48) d.

Fixpoint Zdigits (fuel : nat) (z : Z) (acc : list N) : list N :=
  match fuel with
  | O => acc
  | S f => if (z <? 10)%Z then Z.to_N z :: acc else Zdigits f (z / 10)%Z (Z.to_N (z mod 10) :: acc)
  end.

(* Number::toString for value 0.sig * 10^n, sig non-empty without leading/trailing zeros *)
Definition es6_layout (neg : bool) (sig : list N) (n : Z) : list N :=
  let k := Z.of_nat (List.length sig) in
  let sign := if neg then [45] else [] in
  sign ++
  (if andb (k <=? n)%Z (n <=? 21)%Z then dchars sig ++ repeat 48 (Z.to_nat (n - k))
   else if andb (0 <? n)%Z (n <=? 21)%Z then
     dchars (firstn (Z.to_nat n) sig) ++ [46] ++ dchars (skipn (Z.to_nat n) sig)
   else if andb (-6 <? n)%Z (n <=? 0)%Z then
     [48; 46] ++ repeat 48 (Z.to_nat (- n)) ++ dchars sig
   else
     let e := (n - 1)%Z in
     let mant := match sig with
                 | [d] => dchars [d]
                 | d :: r => dchars [d] ++ [46] ++ dchars r
                 | [] => []
                 end in
     mant ++ [101] ++ (if (e <? 0)%Z then [45] else [43]) ++ dchars (Zdigits 20 (Z.abs e) [])).

Definition in_exact_class (sig : list N) (n : Z) : bool :=
  andb (Nat.leb (List.length sig) 15) (andb (-300 <=? n)%Z (n <=? 308)%Z).

(* canonical token of a JSON number literal, None outside the exact class / grammar *)
Definition es6_normalise_bytes (l : list N) : option (list N) :=
  match parse_number l with
  | None => None
  | Some (neg, sig, n) =>
      match sig with
      | [] => Some [48]                          (* 0, -0, 0.0, 0e9 *)
      | _ => if in_exact_class sig n then Some (es6_layout neg sig n) else None
      end
  end.

Definition es6_normalise (s : string) : option string :=
  match es6_normalise_bytes (bytes_of_string s) with
  | Some l => Some (string_of_bytes l)
  | None => None
  end.

Open Scope string_scope.
Example es6_vectors :
  es6_normalise "1E21" = Some "1e+21" /\ es6_normalise "123456789012345000000" = Some "123456789012345000000" /\
  es6_normalise "0.000001" = Some "0.000001" /\ es6_normalise "0.0000001" = Some "1e-7" /\
  es6_normalise "-0" = Some "0" /\ es6_normalise "1.50" = Some "1.5" /\ es6_normalise "100" = Some "100" /\
  es6_normalise "12.5e-1" = Some "1.25" /\ es6_normalise "-123456.789e3" = Some "-123456789" /\
  es6_normalise "01" = None /\ es6_normalise "1." = None /\ es6_normalise "1.2345678901234567" = None /\
  es6_normalise "1e-7" = Some "1e-7" /\ es6_normalise "123e20" = Some "1.23e+22".
Proof. vm_compute. repeat split; reflexivity. Qed.
