(* Properties of the canonical printer [jcs] (Json/Jcs.v), for every JSON tree:
   - the member sort is a sort: the printed members are a strictly increasing (UTF-16 code unit
     order) permutation of the input members, or the print is refused (duplicate name);
   - the output does not depend on member order at any nesting depth ([jequiv]). *)
From Coq Require Import NArith String Ascii List Bool Sorting.Sorted Sorting.Permutation Lia.
From Sidetree Require Import Json.Json Json.Utf Json.Jcs.
Import ListNotations.

(* ---- units_cmp is a strict total order on code unit lists ---- *)

Lemma units_cmp_eq a : forall b, units_cmp a b = Eq <-> a = b.
Proof.
  induction a as [|x a IH]; intros [|y b]; cbn; try (split; [discriminate|congruence]); try tauto.
  destruct (N.compare_spec x y) as [->|H|H].
  - rewrite IH. split; congruence.
  - split; [discriminate|]. intros E. injection E as -> _. lia.
  - split; [discriminate|]. intros E. injection E as -> _. lia.
Qed.

Lemma units_cmp_refl a : units_cmp a a = Eq.
Proof. now apply units_cmp_eq. Qed.

Lemma units_cmp_antisym a : forall b, units_cmp b a = CompOpp (units_cmp a b).
Proof.
  induction a as [|x a IH]; intros [|y b]; cbn; try reflexivity.
  rewrite (N.compare_antisym x y). destruct (N.compare x y); cbn; auto.
Qed.

Lemma units_cmp_lt_trans a : forall b c, units_cmp a b = Lt -> units_cmp b c = Lt -> units_cmp a c = Lt.
Proof.
  induction a as [|x a IH]; intros [|y b] [|z c]; cbn; try discriminate; auto.
  destruct (N.compare_spec x y) as [->|Hxy|Hxy]; try discriminate.
  - destruct (N.compare_spec y z) as [->|Hyz|Hyz]; try discriminate; auto. apply IH.
  - intros _. destruct (N.compare_spec y z) as [->|Hyz|Hyz]; try discriminate; intros _.
    + destruct (N.compare_spec x z); auto; lia.
    + destruct (N.compare_spec x z); auto; lia.
Qed.

(* ---- entries ---- *)

Definition ekey (e : entry) : list N := snd (fst e).
Definition elt (a b : entry) : Prop := units_cmp (ekey a) (ekey b) = Lt.

Lemma elt_irrefl a : ~ elt a a.
Proof. unfold elt. rewrite units_cmp_refl. discriminate. Qed.

Lemma elt_trans a b c : elt a b -> elt b c -> elt a c.
Proof. apply units_cmp_lt_trans. Qed.

Lemma elt_key_neq a b : elt a b -> ekey a <> ekey b.
Proof. unfold elt. intros H E. rewrite E, units_cmp_refl in H. discriminate. Qed.

Definition ssorted := StronglySorted elt.

(* a strictly sorted permutation is unique *)
Lemma ssorted_unique l1 : forall l2, ssorted l1 -> ssorted l2 -> Permutation l1 l2 -> l1 = l2.
Proof.
  induction l1 as [|a l1 IH]; intros l2 S1 S2 P.
  - apply Permutation_nil in P. now subst.
  - destruct l2 as [|b l2]; [apply Permutation_sym, Permutation_nil in P; discriminate|].
    inversion S1 as [|? ? S1' F1]; subst. inversion S2 as [|? ? S2' F2]; subst.
    assert (a = b) as ->.
    { assert (Ia : In a (b :: l2)) by (eapply Permutation_in; [exact P|now left]).
      assert (Ib : In b (a :: l1)) by (eapply Permutation_in; [apply Permutation_sym; exact P|now left]).
      destruct Ia as [E|Ia]; [now subst|]. destruct Ib as [E|Ib]; [now subst|].
      rewrite Forall_forall in F1, F2. exfalso. apply (elt_irrefl a). eapply elt_trans; eauto. }
    f_equal. apply IH; auto. eapply Permutation_cons_inv; eauto.
Qed.

Lemma ssorted_nodup l : ssorted l -> NoDup (map ekey l).
Proof.
  induction 1 as [|a l S IH F]; cbn; constructor; auto.
  rewrite in_map_iff. intros [x [E I]]. rewrite Forall_forall in F. apply (elt_key_neq a x); auto.
Qed.

(* insert_entry on a sorted list: what it means to succeed *)
Lemma insert_sound e : forall acc acc', ssorted acc -> insert_entry e acc = Some acc' ->
  ssorted acc' /\ Permutation (e :: acc) acc' /\ ~ In (ekey e) (map ekey acc).
Proof.
  induction acc as [|e' r IH]; intros acc' S H; cbn in H.
  - injection H as <-. repeat split; auto. constructor; [constructor|constructor].
  - inversion S as [|? ? S' F]; subst.
    match type of H with context [units_cmp ?a ?b] => destruct (units_cmp a b) eqn:C end; try discriminate.
    + injection H as <-. assert (Fe : Forall (elt e) (e' :: r)).
      { constructor; [exact C|]. eapply Forall_impl; [|exact F]. intros x Hx. eapply elt_trans; [exact C|exact Hx]. }
      repeat split; auto.
      * constructor; auto.
      * rewrite in_map_iff. intros [x [E I]]. rewrite Forall_forall in Fe. apply (elt_key_neq e x); auto.
    + destruct (insert_entry e r) as [r'|] eqn:Ei; [|discriminate]. injection H as <-.
      destruct (IH r' S' eq_refl) as [Sr [P N]].
      assert (Ce : elt e' e).
      { unfold elt, ekey. rewrite units_cmp_antisym, C. reflexivity. }
      repeat split.
      * constructor; auto. eapply Permutation_Forall; [exact P|]. constructor; auto.
      * eapply perm_trans; [apply perm_swap|]. now constructor.
      * cbn. intros [E|I]; [|now apply N]. apply (elt_key_neq e' e); auto.
Qed.

(* ... and it does succeed when the name is new *)
Lemma insert_complete e : forall acc, ssorted acc -> ~ In (ekey e) (map ekey acc) -> exists acc', insert_entry e acc = Some acc'.
Proof.
  induction acc as [|e' r IH]; intros S N; cbn.
  - eauto.
  - inversion S as [|? ? S' F]; subst.
    match goal with |- context [units_cmp ?a ?b] => destruct (units_cmp a b) eqn:C end.
    + exfalso. apply N. left. apply units_cmp_eq in C. unfold ekey. now rewrite C.
    + eauto.
    + destruct (IH S') as [r' ->]; [|eauto]. intros I. apply N. now right.
Qed.

Lemma sort_sound l : forall acc r, ssorted acc -> sort_entries acc l = Some r -> ssorted r /\ Permutation (acc ++ l) r.
Proof.
  induction l as [|e l IH]; intros acc r S H; cbn in H.
  - injection H as <-. rewrite app_nil_r. auto.
  - destruct (insert_entry e acc) as [acc'|] eqn:Ei; [|discriminate].
    destruct (insert_sound _ _ _ S Ei) as [S' [P _]]. destruct (IH _ _ S' H) as [Sr Pr]. split; auto.
    eapply perm_trans; [|exact Pr]. eapply perm_trans; [apply Permutation_sym, Permutation_middle|].
    change (e :: acc ++ l)%list with ((e :: acc) ++ l)%list. now apply Permutation_app_tail.
Qed.

Lemma sort_complete l : forall acc r, ssorted acc -> ssorted r -> Permutation (acc ++ l) r -> sort_entries acc l = Some r.
Proof.
  induction l as [|e l IH]; intros acc r S Sr P; cbn.
  - rewrite app_nil_r in P. f_equal. now apply ssorted_unique.
  - assert (ND : NoDup (map ekey (acc ++ e :: l))).
    { eapply Permutation_NoDup; [apply Permutation_map, Permutation_sym, P|]. now apply ssorted_nodup. }
    assert (N : ~ In (ekey e) (map ekey acc)).
    { rewrite map_app in ND. cbn in ND. apply NoDup_remove_2 in ND. intros I. apply ND. apply in_or_app. now left. }
    destruct (insert_complete e acc S N) as [acc' Ei]. rewrite Ei.
    destruct (insert_sound _ _ _ S Ei) as [S' [Pi _]]. apply IH; auto.
    eapply perm_trans; [|exact P]. eapply perm_trans; [|apply Permutation_middle].
    change (e :: acc ++ l)%list with ((e :: acc) ++ l)%list. now apply Permutation_app_tail, Permutation_sym.
Qed.

(* the member sort does not depend on the order of its input *)
Theorem sort_entries_perm l1 l2 r : Permutation l1 l2 -> sort_entries [] l1 = Some r -> sort_entries [] l2 = Some r.
Proof.
  intros P H. destruct (sort_sound _ _ _ (SSorted_nil _) H) as [S Pr]. cbn in Pr.
  apply sort_complete; auto; [constructor|]. cbn. eapply perm_trans; [apply Permutation_sym; exact P|exact Pr].
Qed.

(* ---- named versions of the local fixpoints of [jcs] ---- *)

Fixpoint parts_of (l : list json) : option (list string) :=
  match l with
  | [] => Some []
  | x :: r => match jcs x, parts_of r with
              | Some sx, Some sr => Some (sx :: sr)
              | _, _ => None
              end
  end.

Fixpoint entries_of (m : list (string * json)) : option (list entry) :=
  match m with
  | [] => Some []
  | (k, v) :: r => match jcs v, entries_of r with
                   | Some sv, Some sr => Some ((k, sort_key k, sv) :: sr)
                   | _, _ => None
                   end
  end.

Lemma jcs_arr l :
  jcs (JArr l) = match parts_of l with Some parts => Some ("[" ++ join "," parts ++ "]")%string | None => None end.
Proof.
  cbn [jcs].
  match goal with |- match ?f l with _ => _ end = _ => assert (E : forall l', f l' = parts_of l') end.
  { induction l' as [|x r IH]; [reflexivity|]. cbn [parts_of]. rewrite <- IH. reflexivity. }
  now rewrite E.
Qed.

Lemma jcs_obj m :
  jcs (JObj m) = match entries_of m with
                 | Some es => match sort_entries [] es with
                              | Some sorted => Some ("{" ++ join "," (map print_entry sorted) ++ "}")%string
                              | None => None
                              end
                 | None => None
                 end.
Proof.
  cbn [jcs].
  match goal with |- match ?f m with _ => _ end = _ => assert (E : forall m', f m' = entries_of m') end.
  { induction m' as [|[k v] r IH]; [reflexivity|]. cbn [entries_of]. rewrite <- IH. reflexivity. }
  now rewrite E.
Qed.

Lemma entries_of_key m : forall es, entries_of m = Some es -> map (fun e => fst (fst e)) es = map fst m.
Proof.
  induction m as [|[k v] r IH]; intros es H; cbn in H.
  - now injection H as <-.
  - destruct (jcs v); [|discriminate]. destruct (entries_of r); [|discriminate]. injection H as <-. cbn. f_equal. now apply IH.
Qed.

(* the printed object: a strictly increasing permutation of the input members *)
Theorem jcs_obj_sorted m out :
  jcs (JObj m) = Some out ->
  exists es sorted, entries_of m = Some es /\ ssorted sorted /\ Permutation es sorted /\
                    out = ("{" ++ join "," (map print_entry sorted) ++ "}")%string.
Proof.
  rewrite jcs_obj. destruct (entries_of m) as [es|]; [|discriminate].
  destruct (sort_entries [] es) as [sorted|] eqn:Es; [|discriminate]. intros H. injection H as <-.
  destruct (sort_sound _ _ _ (SSorted_nil _) Es) as [S P]. exists es, sorted. auto.
Qed.

(* two members whose names have the same UTF-16 image are refused *)
Theorem jcs_obj_distinct_names m out : jcs (JObj m) = Some out -> NoDup (map (fun kv => sort_key (fst kv)) m).
Proof.
  intros H. destruct (jcs_obj_sorted _ _ H) as [es [sorted [E [S [P _]]]]].
  assert (K : map ekey es = map (fun kv => sort_key (fst kv)) m).
  { clear - E. revert es E. induction m as [|[k v] r IH]; intros es H; cbn in H.
    - now injection H as <-.
    - destruct (jcs v); [|discriminate]. destruct (entries_of r); [|discriminate]. injection H as <-. cbn. f_equal. now apply IH. }
  rewrite <- K. eapply Permutation_NoDup; [apply Permutation_map, Permutation_sym, P|]. now apply ssorted_nodup.
Qed.

(* ---- same value, different member order ---- *)

Inductive jequiv : json -> json -> Prop :=
| JE_null : jequiv JNull JNull
| JE_bool b : jequiv (JBool b) (JBool b)
| JE_num t : jequiv (JNum t) (JNum t)
| JE_str s : jequiv (JStr s) (JStr s)
| JE_arr l1 l2 : Forall2 jequiv l1 l2 -> jequiv (JArr l1) (JArr l2)
| JE_obj m1 m' m2 :
    Permutation m1 m' ->
    Forall2 (fun a b => fst a = fst b /\ jequiv (snd a) (snd b)) m' m2 ->
    jequiv (JObj m1) (JObj m2).

Lemma entries_of_perm m1 m2 : Permutation m1 m2 -> forall es1, entries_of m1 = Some es1 ->
  exists es2, entries_of m2 = Some es2 /\ Permutation es1 es2.
Proof.
  induction 1 as [|[k v] l l' P IH|[k1 v1] [k2 v2] l|l l' l'' P1 IH1 P2 IH2]; intros es1 H.
  - eauto.
  - cbn in H |- *. destruct (jcs v); [|discriminate]. destruct (entries_of l) as [es|]; [|discriminate].
    injection H as <-. destruct (IH _ eq_refl) as [es2 [-> P2]]. eauto.
  - cbn in H |- *. destruct (jcs v1); [|destruct (jcs v2); discriminate]. destruct (jcs v2); [|discriminate].
    destruct (entries_of l); [|discriminate]. injection H as <-. eexists. split; [reflexivity|apply perm_swap].
  - destruct (IH1 _ H) as [es2 [H2 Pa]]. destruct (IH2 _ H2) as [es3 [H3 Pb]]. exists es3. split; auto. eapply perm_trans; eauto.
Qed.

Theorem jcs_respects_jequiv a : forall c out, jequiv a c -> jcs a = Some out -> jcs c = Some out.
Proof.
  induction a as [| | | |l IH|m IH] using json_ind'; intros c out E H; inversion E; subst; auto.
  - (* arrays *)
    rewrite jcs_arr in H |- *. destruct (parts_of l) as [parts|] eqn:Ep; [|discriminate].
    assert (parts_of l2 = Some parts) as ->; [|exact H].
    clear H E. revert parts Ep. match goal with F : Forall2 jequiv l l2 |- _ => induction F as [|x y l l2 Exy F IHF] end; intros parts Ep; auto.
    inversion IH as [|? ? Hx Hl]; subst. cbn in Ep |- *.
    destruct (jcs x) as [sx|] eqn:Ex; [|discriminate]. destruct (parts_of l) as [sr|]; [|discriminate].
    rewrite (Hx _ _ Exy eq_refl), (IHF Hl _ eq_refl). exact Ep.
  - (* objects *)
    rewrite jcs_obj in H |- *. destruct (entries_of m) as [es|] eqn:Ee; [|discriminate].
    destruct (sort_entries [] es) as [sorted|] eqn:Es; [|discriminate].
    match goal with P : Permutation m ?m' |- _ => rename P into Pm; destruct (entries_of_perm _ _ Pm _ Ee) as [es' [Ee' Pe]];
      assert (IH' : Forall (fun kv => forall c out, jequiv (snd kv) c -> jcs (snd kv) = Some out -> jcs c = Some out) m')
        by (eapply Permutation_Forall; eauto) end.
    assert (entries_of m2 = Some es') as ->.
    { match goal with F : Forall2 _ m' m2 |- _ => rename F into F2 end.
      clear - IH' Ee' F2. revert es' Ee'. induction F2 as [|[k v] [k2 v2] l l2 [Ek Ev] F IHF]; intros es' Ee'; auto.
      cbn in Ek, Ev. subst k2. inversion IH' as [|? ? Hx Hl]; subst. cbn in Hx. cbn in Ee' |- *.
      destruct (jcs v) as [sv|] eqn:Ev'; [|discriminate]. destruct (entries_of l) as [sr|]; [|discriminate].
      rewrite (Hx _ _ Ev eq_refl), (IHF Hl _ eq_refl). exact Ee'. }
    rewrite (sort_entries_perm _ _ _ Pe Es). exact H.
Qed.

(* reordering the members of the outermost object *)
Corollary jcs_member_order m1 m2 out : Permutation m1 m2 -> jcs (JObj m1) = Some out -> jcs (JObj m2) = Some out.
Proof.
  intros P. apply jcs_respects_jequiv. econstructor; [exact P|].
  clear. induction m2 as [|[k v] r IH]; constructor; auto. split; auto.
  cbn. generalize v. clear. fix rec 1. intros [| | | |l|m]; try constructor.
  - induction l as [|x l IHl]; constructor; auto.
  - apply JE_obj with (m' := m); [apply Permutation_refl|]. induction m as [|[k v] m IHm]; constructor; auto.
Qed.
