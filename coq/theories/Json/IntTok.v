(* Decimal tokens of positive integers: what json.Marshal writes for an int64 field and the
   canonicalizer leaves alone.  For 0 < z < 10^15 the decimal digits of z are a canonical number
   token, and reading the token back as an integer gives z. *)
From Coq Require Import NArith ZArith List Bool String Ascii Lia.
From Sidetree Require Import Base.Sha2 Base.Base64url Json.Json Json.Es6 Json.Es6Props Json.Jcs Json.Parse Json.JcsRoundTrip Json.TransformIdem.
Import ListNotations.
Open Scope N_scope.

Definition z_digits (z : Z) : list N := Zdigits 20 z [].
Definition z_tok (z : Z) : string := string_of_bytes (dchars (z_digits z)).

Lemma Zdigits_nlz fuel : forall z acc, (0 < z)%Z -> (z < 10 ^ Z.of_nat fuel)%Z -> nlz (Zdigits fuel z acc).
Proof.
  induction fuel as [|f IH]; intros z acc Hz Hb.
  - cbn in Hb. lia.
  - cbn [Zdigits]. destruct (z <? 10)%Z eqn:E.
    + apply Z.ltb_lt in E. cbn. destruct (Z.to_N z) eqn:En; [|exact I]. lia.
    + apply Z.ltb_ge in E. apply IH.
      * apply Z.div_str_pos. lia.
      * rewrite Nat2Z.inj_succ, Z.pow_succ_r in Hb by lia. apply Z.div_lt_upper_bound; lia.
Qed.

Lemma Zdigits_length fuel : forall z acc k, (0 <= z)%Z -> (z < 10 ^ Z.of_nat k)%Z -> (1 <= k <= fuel)%nat ->
  (List.length (Zdigits fuel z acc) <= k + List.length acc)%nat.
Proof.
  induction fuel as [|f IH]; intros z acc k Hz Hb Hk; [lia|].
  cbn [Zdigits]. destruct (z <? 10)%Z eqn:E.
  - cbn. lia.
  - apply Z.ltb_ge in E. destruct k as [|k]; [lia|]. destruct k as [|k].
    + cbn in Hb. lia.
    + assert (Hq : (z / 10 < 10 ^ Z.of_nat (S k))%Z).
      { rewrite (Nat2Z.inj_succ (S k)), Z.pow_succ_r in Hb by lia. apply Z.div_lt_upper_bound; lia. }
      pose proof (IH (z / 10)%Z (Z.to_N (z mod 10) :: acc) (S k) ltac:(apply Z.div_pos; lia) Hq ltac:(lia)) as L.
      cbn [List.length] in L. lia.
Qed.

Lemma z_digits_facts z : (0 < z < 10 ^ 15)%Z ->
  Forall digit (z_digits z) /\ z_digits z <> [] /\ nlz (z_digits z) /\ (List.length (z_digits z) <= 15)%nat /\
  digits_to_Z 0 (z_digits z) = z.
Proof.
  intros [Hp Hb]. unfold z_digits. repeat split.
  - apply Zdigits_digits; [lia|constructor].
  - destruct (Zdigits_nonempty 19 z) as [d [ds E]]. rewrite E. discriminate.
  - apply Zdigits_nlz; [exact Hp|]. eapply Z.lt_trans; [exact Hb|]. reflexivity.
  - pose proof (Zdigits_length 20 z [] 15 ltac:(lia) Hb ltac:(lia)) as L. cbn [List.length] in L. lia.
  - rewrite digits_to_Z_Zdigits; [reflexivity|]. split; [lia|]. eapply Z.lt_trans; [exact Hb|]. reflexivity.
Qed.

Lemma digit_cases d0 : digit d0 -> d0 = 0 \/ d0 = 1 \/ d0 = 2 \/ d0 = 3 \/ d0 = 4 \/ d0 = 5 \/ d0 = 6 \/ d0 = 7 \/ d0 = 8 \/ d0 = 9.
Proof. unfold digit. lia. Qed.

Lemma not_minus d0 (r : list N) : digit d0 ->
  (match (d0 + 48) :: r with 45 :: r0 => (true, r0) | _ => (false, (d0 + 48) :: r) end) = (false, (d0 + 48) :: r).
Proof. intros H. destruct (digit_cases d0 H) as [->|[->|[->|[->|[->|[->|[->|[->|[->| ->]]]]]]]]]; reflexivity. Qed.

(* a digit string without leading zero is its own canonical token *)
Lemma strip_trailing_decomp d : exists s z, d = (s ++ repeat 0 z)%list /\ strip_trailing d = (s, Z.of_nat z) /\ (d <> [] -> nlz d -> s <> []).
Proof.
  destruct (strip_leading_suffix (rev d)) as [z Hz].
  exists (rev (strip_leading (rev d))), z.
  assert (Ed : d = (rev (strip_leading (rev d)) ++ repeat 0 z)%list).
  { rewrite <- (rev_involutive d) at 1. rewrite Hz at 1. rewrite rev_app_distr, rev_repeat. reflexivity. }
  split; [exact Ed|]. split.
  - rewrite Ed at 1. apply strip_trailing_ok. rewrite rev_involutive. apply strip_leading_nlz.
  - intros Hne Hn Hs. rewrite Hs in Ed. cbn in Ed. destruct d as [|x r]; [congruence|].
    destruct z; cbn in Ed; [discriminate|]. injection Ed as -> _. exact Hn.
Qed.

Lemma parse_int_digits d0 r s z : Forall digit (d0 :: r) -> d0 <> 0 ->
  strip_trailing (d0 :: r) = (s, z) ->
  parse_number (dchars (d0 :: r)) = Some (false, s, Z.of_nat (List.length (d0 :: r))).
Proof.
  intros Hd Hd0 Est. assert (Hdig0 : digit d0) by (now inversion Hd).
  unfold parse_number. cbn [dchars map]. rewrite (not_minus d0 (map (fun x => x + 48) r) Hdig0).
  change ((d0 + 48) :: map (fun x => x + 48) r) with (dchars (d0 :: r)).
  rewrite <- (app_nil_r (dchars (d0 :: r))). rewrite (take_digits_dchars (d0 :: r) Hd [] I).
  destruct d0 as [|p0]; [congruence|].
  cbn [negb Nat.eqb List.length]. rewrite app_nil_r.
  change (strip_leading (N.pos p0 :: r)) with (N.pos p0 :: r). rewrite Est.
  assert (E : (Z.of_nat (List.length (N.pos p0 :: r)) + 0 - Z.of_nat 0)%Z = Z.of_nat (List.length (N.pos p0 :: r))) by lia.
  rewrite E. reflexivity.
Qed.

Lemma normalise_int_digits d : Forall digit d -> d <> [] -> nlz d -> (List.length d <= 15)%nat ->
  es6_normalise_bytes (dchars d) = Some (dchars d).
Proof.
  intros Hd Hne Hn Hl. destruct d as [|d0 r]; [congruence|].
  assert (Hd0 : d0 <> 0) by (intros ->; exact Hn).
  destruct (strip_trailing_decomp (d0 :: r)) as [s [z [Es [Est Hsne]]]]. specialize (Hsne Hne Hn).
  unfold es6_normalise_bytes. rewrite (parse_int_digits d0 r s _ Hd Hd0 Est).
  destruct s as [|s0 sr] eqn:Ess; [congruence|]. rewrite <- Ess in *.
  assert (Hls : (List.length s <= 15)%nat) by (rewrite Es in Hl; rewrite app_length in Hl; lia).
  assert (Ecl : in_exact_class s (Z.of_nat (List.length (d0 :: r))) = true).
  { unfold in_exact_class. apply andb_true_intro. split; [apply Nat.leb_le; exact Hls|].
    apply andb_true_intro. split; apply Z.leb_le; lia. }
  rewrite Ecl. f_equal. unfold es6_layout. cbn [app].
  assert (Hlen : List.length (d0 :: r) = (List.length s + z)%nat) by (rewrite Es at 1; rewrite app_length, repeat_length; reflexivity).
  replace ((Z.of_nat (List.length s) <=? Z.of_nat (List.length (d0 :: r)))%Z && (Z.of_nat (List.length (d0 :: r)) <=? 21)%Z) with true
    by (symmetry; apply andb_true_intro; split; apply Z.leb_le; lia).
  replace (Z.to_nat (Z.of_nat (List.length (d0 :: r)) - Z.of_nat (List.length s))) with z by lia.
  rewrite Es. unfold dchars. rewrite map_app. f_equal.
  clear. induction z as [|z IH]; cbn; congruence.
Qed.

Theorem z_tok_canonical z : (0 < z < 10 ^ 15)%Z -> canon_tok (z_tok z) = true.
Proof.
  intros Hz. destruct (z_digits_facts z Hz) as (Hd & Hne & Hn & Hl & _).
  apply (es6_normalise_canonical (z_tok z)). unfold es6_normalise, z_tok.
  rewrite bytes_of_string_of_bytes.
  - now rewrite (normalise_int_digits _ Hd Hne Hn Hl).
  - unfold dchars. apply Forall_forall. intros b Hb. apply in_map_iff in Hb as [x [<- Hx]].
    rewrite Forall_forall in Hd. specialize (Hd x Hx). unfold digit in Hd. unfold is_byte. lia.
Qed.
