(* Transform is idempotent on every input of the model's domain: whatever it outputs, it maps
   to itself.  (jsoncanonicalizer.Transform; numbers in the exact class - see Es6.v.) *)
From Coq Require Import NArith ZArith String Ascii List Bool Lia.
From Sidetree Require Import Base.Sha2 Json.Json Json.Utf Json.Es6 Json.Jcs Json.Parse Json.JcsProps Json.JcsRoundTrip Json.Es6Props.
Import ListNotations.
Open Scope string_scope.

Lemma is_numchar_numbyte b : (b < 256)%N -> is_numchar (ascii_of_N b) = numbyte b.
Proof. intros H. unfold is_numchar, numbyte. now rewrite N_ascii_embedding. Qed.

Lemma all_numchar_bytes l : Forall (fun b => numbyte b = true) l -> all_numchar (string_of_bytes l) = true.
Proof.
  unfold string_of_bytes. induction 1 as [|b l Hb _ IH]; cbn; auto.
  rewrite is_numchar_numbyte by now apply numbyte_lt. now rewrite Hb.
Qed.

(* every token the number normaliser emits is canonical *)
Theorem es6_normalise_canonical t t' : es6_normalise t = Some t' -> canon_tok t' = true.
Proof.
  unfold es6_normalise. destruct (es6_normalise_bytes (bytes_of_string t)) as [out|] eqn:E; [|discriminate].
  intros H. injection H as <-. destruct (es6_normalise_bytes_idem _ _ E) as [Hne [Hnb Hid]].
  assert (Hrt : bytes_of_string (string_of_bytes out) = out).
  { apply bytes_string_roundtrip. eapply Forall_impl; [|exact Hnb]. intros b. apply numbyte_lt. }
  unfold canon_tok. repeat (apply andb_true_intro; split).
  - destruct out; [congruence|reflexivity].
  - now apply all_numchar_bytes.
  - unfold valid_number_literal. rewrite Hrt. unfold es6_normalise_bytes in Hid. destruct (parse_number out); [reflexivity|discriminate].
  - unfold es6_normalise. rewrite Hrt, Hid. apply String.eqb_refl.
Qed.

Lemma normalise_numbers_wfnum v : forall v', normalise_numbers v = Some v' -> wfnum v' /\ is_container v' = is_container v.
Proof.
  induction v as [| |t| |l IH|m IH] using json_ind'; intros v' H; try (injection H as <-; split; [constructor|reflexivity]).
  - cbn in H. destruct (es6_normalise t) as [t'|] eqn:E; [|discriminate]. injection H as <-. split; [|reflexivity].
    constructor. eapply es6_normalise_canonical; eauto.
  - rewrite normalise_arr in H. destruct (norm_list l) as [l'|] eqn:E; [|discriminate]. injection H as <-. split; [|reflexivity].
    constructor. revert l' E. induction IH as [|x l Hx _ IHl]; intros l' E; cbn in E.
    + injection E as <-. constructor.
    + destruct (normalise_numbers x) as [x'|]; [|discriminate]. destruct (norm_list l) as [r'|]; [|discriminate].
      injection E as <-. constructor; [apply (Hx x' eq_refl)|apply IHl; reflexivity].
  - rewrite normalise_obj in H. destruct (norm_members m) as [m'|] eqn:E; [|discriminate]. injection H as <-. split; [|reflexivity].
    constructor. revert m' E. induction IH as [|[k x] m Hx _ IHm]; intros m' E; cbn in E.
    + injection E as <-. constructor.
    + cbn in Hx. destruct (normalise_numbers x) as [x'|]; [|discriminate]. destruct (norm_members m) as [r'|]; [|discriminate].
      injection E as <-. constructor; [apply (Hx x' eq_refl)|apply IHm; reflexivity].
Qed.

Theorem transform_idempotent s out : transform s = TOk out -> transform out = TOk out.
Proof.
  unfold transform at 1. destruct (parse_json s) as [v|]; [|discriminate].
  assert (C : forall r : tres, (if is_container v then r else TErr) = TOk out -> is_container v = true /\ r = TOk out).
  { intros r. destruct (is_container v); [auto|discriminate]. }
  intros H.
  assert (H' : is_container v = true /\
               match normalise_numbers v with Some v' => match jcs v' with Some o => TOk o | None => TErr end | None => TOutOfDomain end = TOk out).
  { destruct v; try discriminate; auto. }
  destruct H' as [Cv H']. destruct (normalise_numbers v) as [v'|] eqn:En; [|discriminate].
  destruct (jcs v') as [o|] eqn:Ej; [|discriminate]. injection H' as ->.
  destruct (normalise_numbers_wfnum _ _ En) as [W Cv']. apply (transform_fixed_point v' out Ej W). congruence.
Qed.
