(* RFC 8785 canonical form as produced by jsoncanonicalizer.Transform, as a printer over JSON
   trees: members sorted by UTF-16 code units of their names (insertion sort with duplicate
   detection, as parseObject does), minimal escapes, no whitespace, numbers as canonical tokens. *)
From Coq Require Import NArith String Ascii List Bool.
From Sidetree Require Import Base.Sha2 Json.Json Json.Utf.
Import ListNotations.
Open Scope string_scope.

Definition hexdigit (n : N) : ascii := ascii_of_N (if (n <? 10)%N then 48 + n else 87 + n)%N.

(* decorateString, without the surrounding quotes *)
Fixpoint escape_body (s : string) : string :=
  match s with
  | EmptyString => EmptyString
  | String c r =>
      let n := N_of_ascii c in
      let rest := escape_body r in
      if (n =? 92)%N then String "\" (String "\" rest)
      else if (n =? 34)%N then String "\" (String """" rest)
      else if (n =? 8)%N then String "\" (String "b" rest)
      else if (n =? 12)%N then String "\" (String "f" rest)
      else if (n =? 10)%N then String "\" (String "n" rest)
      else if (n =? 13)%N then String "\" (String "r" rest)
      else if (n =? 9)%N then String "\" (String "t" rest)
      else if (n <? 32)%N then
        String "\" (String "u" (String "0" (String "0" (String (hexdigit (n / 16)) (String (hexdigit (n mod 16)) rest)))))
      else String c rest
  end.

Definition quote (s : string) : string := String """" (escape_body s ++ """").

Definition sort_key (s : string) : list N := utf16_of_bytes (bytes_of_string s).

Definition entry := (string * list N * string)%type.   (* name, sort key, printed value *)

Fixpoint insert_entry (e : entry) (l : list entry) : option (list entry) :=
  match l with
  | [] => Some [e]
  | e' :: r =>
      match units_cmp (snd (fst e)) (snd (fst e')) with
      | Lt => Some (e :: l)
      | Eq => None                                   (* Duplicate key *)
      | Gt => match insert_entry e r with Some r' => Some (e' :: r') | None => None end
      end
  end.

Fixpoint sort_entries (acc : list entry) (l : list entry) : option (list entry) :=
  match l with
  | [] => Some acc
  | e :: r => match insert_entry e acc with Some acc' => sort_entries acc' r | None => None end
  end.

Fixpoint join (sep : string) (l : list string) : string :=
  match l with
  | [] => ""
  | [x] => x
  | x :: r => x ++ sep ++ join sep r
  end.

Definition print_entry (e : entry) : string := quote (fst (fst e)) ++ ":" ++ snd e.

Fixpoint jcs (j : json) : option string :=
  match j with
  | JNull => Some "null"
  | JBool true => Some "true"
  | JBool false => Some "false"
  | JNum t => Some t
  | JStr s => Some (quote s)
  | JArr l =>
      match (fix go (l : list json) : option (list string) :=
               match l with
               | [] => Some []
               | x :: r => match jcs x, go r with
                           | Some sx, Some sr => Some (sx :: sr)
                           | _, _ => None
                           end
               end) l with
      | Some parts => Some ("[" ++ join "," parts ++ "]")
      | None => None
      end
  | JObj m =>
      match (fix go (m : list (string * json)) : option (list entry) :=
               match m with
               | [] => Some []
               | (k, v) :: r => match jcs v, go r with
                                | Some sv, Some sr => Some ((k, sort_key k, sv) :: sr)
                                | _, _ => None
                                end
               end) m with
      | Some es => match sort_entries [] es with
                   | Some sorted => Some ("{" ++ join "," (map print_entry sorted) ++ "}")
                   | None => None
                   end
      | None => None
      end
  end.

Example jcs_example :
  jcs (JObj [("b", JNum "1"); ("a", JArr [JStr (String (ascii_of_N 10) "x"); JNull]); ("", JBool true)])
  = Some "{"""":true,""a"":[""\nx"",null],""b"":1}".
Proof. vm_compute. reflexivity. Qed.

Example jcs_duplicate : jcs (JObj [("a", JNull); ("a", JNull)]) = None.
Proof. vm_compute. reflexivity. Qed.
