(* The canonical form denotes the value it was printed from, and is a fixed point:
     parse_json (jcs v) = v up to member order        (jcs_parse_roundtrip)
     transform (jcs v)  = jcs v                       (transform_fixed_point)
     jcs a = jcs b  ->  a and b are the same value    (jcs_injective)
   for every tree whose number tokens are canonical ([wfnum]); strings and names are arbitrary
   byte strings. *)
From Coq Require Import NArith String Ascii List Bool Sorting.Permutation Lia.
From Sidetree Require Import Base.Sha2 Json.Json Json.Utf Json.Es6 Json.Jcs Json.Parse Json.JcsProps.
Import ListNotations.
Open Scope string_scope.

(* ---- strings ---- *)

Lemma length_app a b : String.length (a ++ b) = (String.length a + String.length b)%nat.
Proof. induction a as [|c a IH]; cbn; auto. Qed.

Lemma app_assoc_s a b c : (a ++ b) ++ c = a ++ (b ++ c).
Proof. induction a as [|x a IH]; cbn; congruence. Qed.

Lemma app_nil_r_s a : a ++ "" = a.
Proof. induction a as [|x a IH]; cbn; congruence. Qed.

(* one source byte of a string: printed, then parsed *)
Lemma psb_step c r rest f :
  parse_string_body (S f) (escape_body (String c r) ++ String """" rest) =
  match parse_string_body f (escape_body r ++ String """" rest) with
  | Some (t, rest') => Some (String c t, rest')
  | None => None
  end.
Proof.
  destruct c as [[] [] [] [] [] [] [] []]; cbn; destruct (parse_string_body f _) as [[t r']|]; reflexivity.
Qed.

Lemma escape_body_length_pos c r : (String.length (escape_body r) < String.length (escape_body (String c r)))%nat.
Proof. destruct c as [[] [] [] [] [] [] [] []]; cbn; lia. Qed.

Lemma psb_roundtrip s : forall rest f, (String.length (escape_body s) < f)%nat ->
  parse_string_body f (escape_body s ++ String """" rest) = Some (s, rest).
Proof.
  induction s as [|c r IH]; intros rest f Hf.
  - destruct f; [cbn in Hf; lia|]. reflexivity.
  - destruct f as [|f]; [lia|]. rewrite psb_step, IH; auto.
    pose proof (escape_body_length_pos c r). lia.
Qed.

Lemma quote_parse s rest :
  parse_string_body (String.length (escape_body s ++ String """" rest) + 1) (escape_body s ++ String """" rest) = Some (s, rest).
Proof. apply psb_roundtrip. rewrite length_app. cbn. lia. Qed.

(* ---- number tokens ---- *)

Fixpoint all_numchar (t : string) : bool :=
  match t with EmptyString => true | String c r => andb (is_numchar c) (all_numchar r) end.

Definition canon_tok (t : string) : bool :=
  andb (negb (String.eqb t "")) (andb (all_numchar t) (andb (valid_number_literal t)
       (match es6_normalise t with Some t' => String.eqb t' t | None => false end))).

Definition follow_ok (rest : string) : Prop :=
  match rest with EmptyString => True | String c _ => is_numchar c = false end.

Lemma numchar_facts c : is_numchar c = true ->
  is_ws c = false /\ (N_of_ascii c =? 123)%N = false /\ (N_of_ascii c =? 91)%N = false /\ (N_of_ascii c =? 34)%N = false /\
  Ascii.eqb "t" c = false /\ Ascii.eqb "f" c = false /\ Ascii.eqb "n" c = false.
Proof.
  destruct c as [[] [] [] [] [] [] [] []]; intros H; vm_compute in H; try discriminate H; vm_compute; repeat split; reflexivity.
Qed.

Lemma take_num_all t : forall rest, all_numchar t = true -> follow_ok rest -> take_num (t ++ rest) = (t, rest).
Proof.
  induction t as [|c r IH]; intros rest H F; cbn [take_num append].
  - destruct rest as [|c r]; auto. cbn [follow_ok] in F. cbn [take_num]. now rewrite F.
  - cbn in H. apply andb_prop in H as [Hc Hr]. rewrite Hc, IH; auto.
Qed.

(* ---- well-formed trees: every number token is canonical ---- *)

Inductive wfnum : json -> Prop :=
| W_null : wfnum JNull
| W_bool b : wfnum (JBool b)
| W_num t : canon_tok t = true -> wfnum (JNum t)
| W_str s : wfnum (JStr s)
| W_arr l : Forall wfnum l -> wfnum (JArr l)
| W_obj m : Forall (fun kv => wfnum (snd kv)) m -> wfnum (JObj m).

Definition is_container (v : json) : bool := match v with JObj _ | JArr _ => true | _ => false end.

(* ---- the value parser on printed values ---- *)

Definition rt (v : json) : Prop :=
  forall out, jcs v = Some out -> wfnum v ->
  forall fuel rest, follow_ok rest -> (2 * String.length out < fuel)%nat ->
  exists v', parse_value fuel (out ++ rest) = PR v' rest /\ jequiv v v' /\ wfnum v'.

Lemma join_cons_cons sep x y r : join sep (x :: y :: r) = x ++ sep ++ join sep (y :: r).
Proof. reflexivity. Qed.

Lemma follow_comma r : follow_ok (String "," r).  Proof. reflexivity. Qed.
Lemma follow_rbracket r : follow_ok (String "]" r).  Proof. reflexivity. Qed.
Lemma follow_rbrace r : follow_ok (String "}" r).  Proof. reflexivity. Qed.

(* elements of a printed array *)
Lemma rt_elements l : Forall rt l -> Forall wfnum l -> forall parts, parts_of l = Some parts -> l <> [] ->
  forall fuel rest acc, (2 * String.length (join "," parts) + 2 <= fuel)%nat ->
  exists l', parse_elements fuel (join "," parts ++ String "]" rest) acc = PR (JArr (rev acc ++ l')) rest /\
             Forall2 jequiv l l' /\ Forall wfnum l'.
Proof.
  induction l as [|x l IH]; intros HF HW parts Hp Hne fuel rest acc Hfuel; [congruence|].
  inversion HF as [|? ? Hx HFl]; subst. inversion HW as [|? ? Wx HWl]; subst.
  cbn in Hp. destruct (jcs x) as [sx|] eqn:Ex; [|discriminate]. destruct (parts_of l) as [sr|] eqn:Er; [|discriminate].
  injection Hp as <-. destruct fuel as [|f]; [lia|].
  destruct l as [|y l].
  - (* last element *)
    cbn in Er. injection Er as <-. cbn [join] in *.
    destruct (Hx sx Ex Wx f (String "]" rest) (follow_rbracket _)) as [x' [Px [Ex' Wx']]]; [lia|].
    exists [x']. cbn [parse_elements]. rewrite Px. cbn. repeat split; auto.
  - assert (exists p ps, sr = p :: ps) as [p [ps ->]].
    { cbn in Er. destruct (jcs y); [|discriminate]. destruct (parts_of l); [|discriminate]. injection Er as <-. eauto. }
    rewrite join_cons_cons in *. rewrite !app_assoc_s. rewrite !length_app in Hfuel. cbn [String.length] in Hfuel.
    destruct (Hx sx Ex Wx f (String "," (join "," (p :: ps) ++ String "]" rest)) (follow_comma _)) as [x' [Px [Ex' Wx']]]; [lia|].
    cbn [parse_elements]. cbn [append]. rewrite Px. cbn -[join parse_elements].
    destruct (IH HFl HWl _ eq_refl ltac:(discriminate) f rest (x' :: acc)) as [l' [Pl [El Wl]]]; [lia|].
    exists (x' :: l'). rewrite Pl. cbn [rev]. rewrite <- app_assoc. repeat split; auto.
Qed.

(* one printed member *)
Lemma pm_step f k sv tail acc :
  parse_members (S f) (print_entry (k, sort_key k, sv) ++ tail) acc =
  match parse_value f (sv ++ tail) with
  | PR v rest2 =>
      match skip_ws rest2 with
      | String c3 r3 =>
          if (N_of_ascii c3 =? 44)%N then parse_members f r3 ((k, v) :: acc)
          else if (N_of_ascii c3 =? 125)%N then PR (JObj (rev ((k, v) :: acc))) r3
          else PFail
      | EmptyString => PFail
      end
  | PFail => PFail
  | POutOfFuel => POutOfFuel
  end.
Proof.
  unfold print_entry, quote. cbn [fst snd].
  replace ((String """" (escape_body k ++ """") ++ ":" ++ sv) ++ tail)
    with (String """" (escape_body k ++ String """" (String ":" (sv ++ tail)))).
  2:{ cbn [append]. f_equal. rewrite !app_assoc_s. reflexivity. }
  cbn [parse_members skip_ws]. change (is_ws """") with false. cbv iota.
  change (negb (N_of_ascii """" =? 34)%N) with false. cbv iota.
  rewrite quote_parse. cbn [skip_ws]. change (is_ws ":") with false. cbv iota.
  change (negb (N_of_ascii ":" =? 58)%N) with false. cbv iota. reflexivity.
Qed.

Lemma entries_perm_inv es sorted : Permutation es sorted -> forall m, entries_of m = Some es ->
  exists m', Permutation m m' /\ entries_of m' = Some sorted.
Proof.
  induction 1 as [|x l l' P IH|x y l|l l' l'' P1 IH1 P2 IH2]; intros m H.
  - exists m. split; auto.
  - destruct m as [|[k v] mr]; cbn in H; [discriminate|].
    destruct (jcs v) as [sv|] eqn:Ev; [|discriminate]. destruct (entries_of mr) as [er|] eqn:Er; [|discriminate].
    injection H as <- <-. destruct (IH _ Er) as [mr' [Pm Em]]. exists ((k, v) :: mr'). split; [now constructor|].
    cbn. now rewrite Ev, Em.
  - destruct m as [|[k1 v1] [|[k2 v2] mr]]; cbn in H; try discriminate.
    + destruct (jcs v1); discriminate.
    + destruct (jcs v1) as [s1|] eqn:E1; [|discriminate]. destruct (jcs v2) as [s2|] eqn:E2; [|discriminate].
      destruct (entries_of mr) as [er|] eqn:Er; [|discriminate]. injection H as <- <- <-.
      exists ((k2, v2) :: (k1, v1) :: mr). split; [apply perm_swap|]. cbn. now rewrite E1, E2, Er.
  - destruct (IH1 _ H) as [m1 [Pa Ea]]. destruct (IH2 _ Ea) as [m2 [Pb Eb]]. exists m2. split; auto. eapply perm_trans; eauto.
Qed.

Definition same_members (a b : string * json) : Prop := fst a = fst b /\ jequiv (snd a) (snd b).

Lemma rt_members m : Forall (fun kv => rt (snd kv)) m -> Forall (fun kv => wfnum (snd kv)) m ->
  forall es, entries_of m = Some es -> m <> [] ->
  forall fuel rest acc, (2 * String.length (join "," (map print_entry es)) + 2 <= fuel)%nat ->
  exists m', parse_members fuel (join "," (map print_entry es) ++ String "}" rest) acc = PR (JObj (rev acc ++ m')) rest /\
             Forall2 same_members m m' /\ Forall (fun kv => wfnum (snd kv)) m'.
Proof.
  induction m as [|[k v] m IH]; intros HF HW es He Hne fuel rest acc Hfuel; [congruence|].
  inversion HF as [|? ? Hx HFl]; subst. inversion HW as [|? ? Wx HWl]; subst. cbn [snd] in Hx, Wx.
  cbn in He. destruct (jcs v) as [sv|] eqn:Ev; [|discriminate]. destruct (entries_of m) as [er|] eqn:Er; [|discriminate].
  injection He as <-. destruct fuel as [|f]; [lia|]. cbn [map].
  destruct m as [|[k2 v2] m].
  - cbn in Er. injection Er as <-. cbn [map join] in *. rewrite pm_step.
    assert (Hl : (String.length sv <= String.length (print_entry (k, sort_key k, sv)))%nat).
    { unfold print_entry. cbn [fst snd]. rewrite !length_app. lia. }
    destruct (Hx sv Ev Wx f (String "}" rest) (follow_rbrace _)) as [v' [Pv [Ev' Wv']]]; [lia|].
    rewrite Pv. cbn -[rev]. exists [(k, v')]. cbn [rev]. repeat split; auto. constructor; [split; auto|constructor].
  - assert (exists e er', er = e :: er') as [e [er' ->]].
    { cbn in Er. destruct (jcs v2); [|discriminate]. destruct (entries_of m); [|discriminate]. injection Er as <-. eauto. }
    cbn [map] in Hfuel |- *. rewrite join_cons_cons in Hfuel |- *. rewrite !app_assoc_s. rewrite pm_step.
    assert (Hl : (String.length sv <= String.length (print_entry (k, sort_key k, sv)))%nat).
    { unfold print_entry. cbn [fst snd]. rewrite !length_app. lia. }
    rewrite !length_app in Hfuel. cbn [String.length] in Hfuel.
    destruct (Hx sv Ev Wx f (String "," (join "," (print_entry e :: map print_entry er') ++ String "}" rest)) (follow_comma _))
      as [v' [Pv [Ev' Wv']]]; [lia|].
    cbn [append]. rewrite Pv. cbn -[join parse_members rev print_entry].
    destruct (IH HFl HWl _ eq_refl ltac:(discriminate) f rest ((k, v') :: acc)) as [m' [Pm [Em Wm]]]; [cbn [map]; lia|].
    exists ((k, v') :: m'). cbn [map] in Pm. rewrite Pm. cbn [rev]. rewrite <- app_assoc. repeat split; auto.
    constructor; [split; auto|auto].
Qed.

(* the first byte of a printed value *)
Lemma jcs_head v out : jcs v = Some out -> wfnum v ->
  exists c r, out = String c r /\ is_ws c = false /\ (N_of_ascii c =? 93)%N = false.
Proof.
  intros H W. destruct v as [|[]|t|s|l|m].
  - injection H as <-. repeat eexists.
  - injection H as <-. repeat eexists.
  - injection H as <-. repeat eexists.
  - injection H as <-. inversion W as [| |? Hc| | |]; subst. unfold canon_tok in Hc.
    destruct t as [|c r]; [discriminate|]. apply andb_prop in Hc as [_ Hc]. apply andb_prop in Hc as [Hn _].
    cbn in Hn. apply andb_prop in Hn as [Hn _]. exists c, r. split; auto. split; [now apply numchar_facts|].
    clear - Hn. destruct c as [[] [] [] [] [] [] [] []]; vm_compute in Hn; try discriminate Hn; reflexivity.
  - injection H as <-. unfold quote. repeat eexists.
  - rewrite jcs_arr in H. destruct (parts_of l); [|discriminate]. injection H as <-. repeat eexists.
  - rewrite jcs_obj in H. destruct (entries_of m); [|discriminate]. destruct (sort_entries [] l); [|discriminate].
    injection H as <-. repeat eexists.
Qed.

Lemma join_head_quote es : es <> [] -> exists r, join "," (map print_entry es) = String """" r.
Proof.
  destruct es as [|e [|e2 es]]; [congruence| |]; intros _; cbn [map].
  - cbn [join]. unfold print_entry, quote. cbn [append]. eauto.
  - rewrite join_cons_cons. unfold print_entry at 1. unfold quote. cbn [append]. eauto.
Qed.

Theorem rt_all v : rt v.
Proof.
  induction v as [|b|t|s|l IH|m IH] using json_ind'; intros out H W fuel rest F Hfuel; (destruct fuel as [|f]; [lia|]).
  - injection H as <-. exists JNull. repeat split; auto; constructor.
  - destruct b; injection H as <-; eexists; (split; [reflexivity|split; constructor]).
  - injection H as <-. inversion W as [| |? Hc| | |]; subst. exists (JNum t). split; [|split; [constructor|exact W]].
    unfold canon_tok in Hc. destruct t as [|c r]; [discriminate|].
    apply andb_prop in Hc as [_ Hc]. apply andb_prop in Hc as [Hn Hc]. apply andb_prop in Hc as [Hv _].
    assert (Hn' := Hn). cbn [all_numchar] in Hn'. apply andb_prop in Hn' as [Hcn _].
    destruct (numchar_facts c Hcn) as [N1 [N2 [N3 [N4 [N5 [N6 N7]]]]]].
    cbn [parse_value append skip_ws]. rewrite N1. cbv iota. rewrite N2, N3, N4.
    cbn [strip_prefix]. rewrite N5, N6, N7.
    change (String c (r ++ rest)) with (String c r ++ rest). rewrite take_num_all; auto. now rewrite Hv.
  - injection H as <-. exists (JStr s). split; [|split; constructor].
    unfold quote. cbn [append]. rewrite app_assoc_s. cbn [append].
    cbn [parse_value skip_ws]. change (is_ws """") with false. cbv iota.
    change (N_of_ascii """" =? 123)%N with false. change (N_of_ascii """" =? 91)%N with false.
    change (N_of_ascii """" =? 34)%N with true. cbv iota. now rewrite quote_parse.
  - (* arrays *)
    rewrite jcs_arr in H. destruct (parts_of l) as [parts|] eqn:Ep; [|discriminate]. injection H as <-.
    inversion W as [| | | |? Wl|]; subst.
    destruct l as [|x l].
    + cbn in Ep. injection Ep as <-. exists (JArr []). split; [reflexivity|split; constructor; constructor].
    + assert (exists p ps, parts = p :: ps) as [p [ps ->]].
      { cbn in Ep. destruct (jcs x); [|discriminate]. destruct (parts_of l); [|discriminate]. injection Ep as <-. eauto. }
      assert (Hp : jcs x = Some p).
      { cbn in Ep. destruct (jcs x); [|discriminate]. destruct (parts_of l); [|discriminate]. now injection Ep as -> _. }
      destruct (jcs_head x p Hp ltac:(now inversion Wl)) as [c [r [-> [Hws Hrb]]]].
      cbn [String.length] in Hfuel. rewrite !length_app in Hfuel. cbn [String.length] in Hfuel.
      destruct (rt_elements (x :: l) IH Wl _ Ep ltac:(discriminate) f rest []) as [l' [Pl [El Wl']]]; [lia|].
      exists (JArr l'). split; [|split; constructor; auto].
      cbn [append]. rewrite app_assoc_s. cbn [append].
      cbn [parse_value skip_ws]. change (is_ws "[") with false. cbv iota.
      change (N_of_ascii "[" =? 123)%N with false. change (N_of_ascii "[" =? 91)%N with true. cbv iota.
      assert (Hs : exists r', join "," (String c r :: ps) ++ String "]" rest = String c r').
      { destruct ps; [cbn [join append]; eauto|rewrite join_cons_cons; cbn [append]; eauto]. }
      destruct Hs as [r' Hs]. rewrite Hs. cbn [skip_ws]. rewrite Hws, Hrb. rewrite <- Hs. exact Pl.
  - (* objects *)
    destruct (jcs_obj_sorted _ _ H) as [es [sorted [Ee [Ss [Ps ->]]]]].
    inversion W as [| | | | |? Wm]; subst.
    destruct (entries_perm_inv _ _ Ps _ Ee) as [m' [Pm Em]].
    destruct m' as [|kv m'].
    + cbn in Em. injection Em as <-. apply Permutation_sym, Permutation_nil in Pm. subst m.
      exists (JObj []). split; [reflexivity|split; [|constructor; constructor]].
      apply JE_obj with (m' := []); constructor.
    + assert (IH' : Forall (fun kv => rt (snd kv)) (kv :: m')) by (eapply Permutation_Forall; eauto).
      assert (Wm' : Forall (fun kv => wfnum (snd kv)) (kv :: m')) by (eapply Permutation_Forall; eauto).
      cbn [String.length append] in Hfuel. rewrite !length_app in Hfuel. cbn [String.length] in Hfuel.
      destruct (rt_members _ IH' Wm' _ Em ltac:(discriminate) f rest []) as [m'' [Pmm [Emm Wmm]]]; [lia|].
      exists (JObj m''). split; [|split; [eapply JE_obj; eauto|constructor; auto]].
      cbn [append]. rewrite app_assoc_s. cbn [append].
      cbn [parse_value skip_ws]. change (is_ws "{") with false. cbv iota.
      change (N_of_ascii "{" =? 123)%N with true. cbv iota.
      assert (Hne : sorted <> []).
      { intros ->. destruct kv as [k v]. cbn in Em. destruct (jcs v); [|discriminate]. destruct (entries_of m'); discriminate. }
      destruct (join_head_quote sorted Hne) as [r' Hs]. rewrite Hs in Pmm |- *. cbn [append skip_ws] in Pmm |- *.
      change (is_ws """") with false. cbv iota. change (N_of_ascii """" =? 125)%N with false. cbv iota. exact Pmm.
Qed.

(* ---- jequiv is an equivalence ---- *)

Lemma jequiv_refl v : jequiv v v.
Proof.
  induction v as [| | | |l IH|m IH] using json_ind'; try constructor.
  - induction IH; constructor; auto.
  - apply JE_obj with (m' := m); [apply Permutation_refl|]. induction IH; constructor; auto.
Qed.

Lemma jequiv_sym a : forall c, jequiv a c -> jequiv c a.
Proof.
  induction a as [| | | |l IH|m IH] using json_ind'; intros c E; inversion E; subst; try constructor.
  - clear E. match goal with F : Forall2 jequiv l _ |- _ => induction F as [|x y l l2 Exy F IHF] end; constructor.
    + inversion IH; subst; auto.
    + inversion IH; subst; auto.
  - match goal with P : Permutation m ?m', F : Forall2 _ ?m' ?m2 |- _ =>
      destruct (Permutation_Forall2 (Permutation_sym P) F) as [l2 [P2 F2]] end.
    apply JE_obj with (m' := l2); auto.
    clear - IH F2. induction F2 as [|x y l l2 [Ek Ev] F IHF]; constructor; inversion IH; subst; auto.
Qed.

Lemma jequiv_trans a : forall c d, jequiv a c -> jequiv c d -> jequiv a d.
Proof.
  induction a as [| | | |l IH|m IH] using json_ind'; intros c d E1 E2; inversion E1; subst; inversion E2; subst; try constructor.
  - match goal with F1 : Forall2 jequiv l ?l2, F2 : Forall2 jequiv ?l2 ?l3 |- _ =>
      clear E1 E2; revert l3 F2; induction F1 as [|x y l l2 Exy F IHF]; intros l3 F2; inversion F2; subst; constructor end.
    + inversion IH; subst; eauto.
    + inversion IH; subst. eapply IHF; eauto.
  - match goal with P1 : Permutation m ?m', F1 : Forall2 _ ?m' ?m2, P2 : Permutation ?m2 ?n', F2 : Forall2 _ ?n' ?m3 |- _ =>
      rename m' into ma; rename m2 into mb; rename n' into na; rename m3 into mc;
      rename P1 into Pa; rename F1 into Fa; rename P2 into Pb; rename F2 into Fb end.
    (* transport the second permutation back through the first pointwise relation *)
    assert (Fa' : Forall2 (fun b a => fst a = fst b /\ jequiv (snd a) (snd b)) mb ma).
    { clear - Fa. induction Fa; constructor; auto. }
    destruct (Permutation_Forall2 Pb Fa') as [l [Pl Fl]].
    apply JE_obj with (m' := l); [eapply perm_trans; eauto|].
    assert (IHl : Forall (fun kv => forall b c, jequiv (snd kv) b -> jequiv b c -> jequiv (snd kv) c) l).
    { eapply Permutation_Forall; [|exact IH]. eapply perm_trans; eauto. }
    clear - Fl Fb IHl. revert mc Fb. induction Fl as [|x y na l [Ek Ev] F IHF]; intros mc Fb; inversion Fb as [|? z ? mc' [Ek2 Ev2] Fb']; subst; constructor.
    + inversion IHl; subst. split; [congruence|eauto].
    + inversion IHl; subst. auto.
Qed.

(* ---- the theorems ---- *)

Theorem jcs_parse_roundtrip v out : jcs v = Some out -> wfnum v ->
  exists v', parse_json out = Some v' /\ jequiv v v' /\ wfnum v'.
Proof.
  intros H W. destruct (rt_all v out H W (fuel_for out) "" I) as [v' [P [E W']]]; [unfold fuel_for; lia|].
  exists v'. unfold parse_json. rewrite app_nil_r_s in P. rewrite P. auto.
Qed.

Fixpoint norm_list (l : list json) : option (list json) :=
  match l with
  | [] => Some []
  | x :: r => match normalise_numbers x, norm_list r with Some x', Some r' => Some (x' :: r') | _, _ => None end
  end.

Fixpoint norm_members (m : list (string * json)) : option (list (string * json)) :=
  match m with
  | [] => Some []
  | (k, v) :: r => match normalise_numbers v, norm_members r with Some v', Some r' => Some ((k, v') :: r') | _, _ => None end
  end.

Lemma normalise_arr l : normalise_numbers (JArr l) = match norm_list l with Some l' => Some (JArr l') | None => None end.
Proof.
  cbn [normalise_numbers].
  match goal with |- match ?f l with _ => _ end = _ => assert (E : forall l', f l' = norm_list l') end.
  { induction l' as [|x r IH]; [reflexivity|]. cbn [norm_list]. rewrite <- IH. reflexivity. }
  now rewrite E.
Qed.

Lemma normalise_obj m : normalise_numbers (JObj m) = match norm_members m with Some m' => Some (JObj m') | None => None end.
Proof.
  cbn [normalise_numbers].
  match goal with |- match ?f m with _ => _ end = _ => assert (E : forall m', f m' = norm_members m') end.
  { induction m' as [|[k v] r IH]; [reflexivity|]. cbn [norm_members]. rewrite <- IH. reflexivity. }
  now rewrite E.
Qed.

(* canonical number tokens are left alone *)
Lemma normalise_wfnum v : wfnum v -> normalise_numbers v = Some v.
Proof.
  induction v as [| |t| |l IH|m IH] using json_ind'; intros W; auto.
  - inversion W as [| |? Hc| | |]; subst. unfold canon_tok in Hc.
    apply andb_prop in Hc as [_ Hc]. apply andb_prop in Hc as [_ Hc]. apply andb_prop in Hc as [_ Hc].
    cbn. destruct (es6_normalise t) as [t'|]; [|discriminate]. apply String.eqb_eq in Hc. now subst.
  - rewrite normalise_arr. inversion W as [| | | |? Wl|]; subst.
    assert (norm_list l = Some l) as ->; auto.
    induction IH as [|x l Hx Hl IHl]; auto. inversion Wl; subst. cbn. rewrite Hx, IHl; auto. constructor; auto.
  - rewrite normalise_obj. inversion W as [| | | | |? Wm]; subst.
    assert (norm_members m = Some m) as ->; auto.
    induction IH as [|[k v] m Hx Hl IHl]; auto. inversion Wm; subst. cbn in *. rewrite Hx, IHl; auto. constructor; auto.
Qed.

Theorem transform_fixed_point v out : jcs v = Some out -> wfnum v -> is_container v = true -> transform out = TOk out.
Proof.
  intros H W C. destruct (jcs_parse_roundtrip v out H W) as [v' [P [E W']]].
  unfold transform. rewrite P.
  assert (C' : is_container v' = true) by (inversion E; subst; auto; discriminate).
  rewrite (normalise_wfnum _ W'), (jcs_respects_jequiv _ _ _ E H). destruct v'; try discriminate; reflexivity.
Qed.

(* equal canonical bytes: the same value *)
Theorem jcs_injective a b out : jcs a = Some out -> jcs b = Some out -> wfnum a -> wfnum b -> jequiv a b.
Proof.
  intros Ha Hb Wa Wb.
  destruct (jcs_parse_roundtrip a out Ha Wa) as [a' [Pa [Ea _]]].
  destruct (jcs_parse_roundtrip b out Hb Wb) as [b' [Pb [Eb _]]].
  rewrite Pa in Pb. injection Pb as <-. eapply jequiv_trans; [exact Ea|apply jequiv_sym; exact Eb].
Qed.

(* ... and conversely *)
Theorem jcs_canonical a b : jequiv a b -> jcs a = jcs b.
Proof.
  intros E. destruct (jcs a) as [out|] eqn:Ha.
  - symmetry. eapply jcs_respects_jequiv; eauto.
  - destruct (jcs b) as [out|] eqn:Hb; auto. apply jequiv_sym in E. rewrite (jcs_respects_jequiv _ _ _ E Hb) in Ha. discriminate.
Qed.

Example wfnum_example :
  wfnum (JObj [("b", JNum "1.5"); ("a", JArr [JNum "1e+21"; JNum "-0.000001"; JStr "x"])]).
Proof. repeat constructor. Qed.
