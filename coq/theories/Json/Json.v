(* JSON values.  Numbers are kept as their canonical (ES6) token, a byte string. *)
From Coq Require Import String List Bool Ascii.
Import ListNotations.
Open Scope string_scope.

Inductive json : Type :=
| JNull
| JBool (b : bool)
| JNum (tok : string)
| JStr (s : string)
| JArr (l : list json)
| JObj (m : list (string * json)).

(* Induction principle that goes through the nested lists. *)
Section JsonInd.
  Variable P : json -> Prop.
  Hypothesis Hnull : P JNull.
  Hypothesis Hbool : forall b, P (JBool b).
  Hypothesis Hnum : forall t, P (JNum t).
  Hypothesis Hstr : forall s, P (JStr s).
  Hypothesis Harr : forall l, Forall P l -> P (JArr l).
  Hypothesis Hobj : forall m, Forall (fun kv => P (snd kv)) m -> P (JObj m).

  Fixpoint json_ind' (j : json) : P j :=
    match j with
    | JNull => Hnull
    | JBool b => Hbool b
    | JNum t => Hnum t
    | JStr s => Hstr s
    | JArr l =>
        Harr l ((fix go (l : list json) : Forall P l :=
                   match l with
                   | [] => Forall_nil _
                   | x :: xs => Forall_cons _ (json_ind' x) (go xs)
                   end) l)
    | JObj m =>
        Hobj m ((fix go (m : list (string * json)) : Forall (fun kv => P (snd kv)) m :=
                   match m with
                   | [] => Forall_nil _
                   | kv :: xs => Forall_cons _ (json_ind' (snd kv)) (go xs)
                   end) m)
    end.
End JsonInd.

(* Structural (order-sensitive) equality test. *)
Fixpoint json_eqb (a b : json) {struct a} : bool :=
  match a, b with
  | JNull, JNull => true
  | JBool x, JBool y => Bool.eqb x y
  | JNum x, JNum y => String.eqb x y
  | JStr x, JStr y => String.eqb x y
  | JArr l1, JArr l2 =>
      (fix go (l1 l2 : list json) : bool :=
         match l1, l2 with
         | [], [] => true
         | x :: xs, y :: ys => andb (json_eqb x y) (go xs ys)
         | _, _ => false
         end) l1 l2
  | JObj m1, JObj m2 =>
      (fix go (m1 m2 : list (string * json)) : bool :=
         match m1, m2 with
         | [], [] => true
         | (k1, v1) :: xs, (k2, v2) :: ys => andb (andb (String.eqb k1 k2) (json_eqb v1 v2)) (go xs ys)
         | _, _ => false
         end) m1 m2
  | _, _ => false
  end.

Lemma json_eqb_eq a : forall c, json_eqb a c = true <-> a = c.
Proof.
  induction a using json_ind'; intros c; destruct c; cbn; try (split; [discriminate|congruence]);
    try (split; reflexivity).
  - rewrite Bool.eqb_true_iff. split; congruence.
  - rewrite String.eqb_eq. split; congruence.
  - rewrite String.eqb_eq. split; congruence.
  - revert l0. induction H as [|x xs Hx Hxs IH]; intros [|y ys]; try (split; [discriminate|congruence]).
    + split; reflexivity.
    + rewrite Bool.andb_true_iff, Hx, IH. split.
      * intros [-> E]. injection E as ->. reflexivity.
      * intros E. injection E as -> ->. split; reflexivity.
  - revert m0. induction H as [|[k v] xs Hx Hxs IH]; intros [|[k2 v2] ys]; try (split; [discriminate|congruence]).
    + split; reflexivity.
    + cbn in Hx. rewrite !Bool.andb_true_iff, String.eqb_eq, Hx, IH. split.
      * intros [[-> ->] E]. injection E as ->. reflexivity.
      * intros E. injection E as -> -> ->. repeat split; reflexivity.
Qed.

(* ---- object / assoc helpers (Go map semantics: unique keys, order irrelevant) ---- *)

Definition obj := list (string * json).

Fixpoint lookup (k : string) (m : obj) : option json :=
  match m with
  | [] => None
  | (k', v) :: r => if String.eqb k k' then Some v else lookup k r
  end.

Fixpoint remove_key (k : string) (m : obj) : obj :=
  match m with
  | [] => []
  | (k', v) :: r => if String.eqb k k' then remove_key k r else (k', v) :: remove_key k r
  end.

(* m[k] = v : replace in place when present, else append (order is not observable in Go;
   a deterministic choice is made and comparisons are done after sorting). *)
Fixpoint set_key (k : string) (v : json) (m : obj) : obj :=
  match m with
  | [] => [(k, v)]
  | (k', v') :: r => if String.eqb k k' then (k, v) :: r else (k', v') :: set_key k v r
  end.

Definition keys (m : obj) : list string := map fst m.

Lemma lookup_set_same k v m : lookup k (set_key k v m) = Some v.
Proof.
  induction m as [|[k' v'] r IH]; cbn.
  - now rewrite String.eqb_refl.
  - destruct (String.eqb k k') eqn:E; cbn; rewrite ?String.eqb_refl, ?E; auto.
Qed.

Lemma lookup_set_other k k' v m : k <> k' -> lookup k' (set_key k v m) = lookup k' m.
Proof.
  intros N. induction m as [|[k2 v2] r IH]; cbn.
  - destruct (String.eqb_spec k' k); congruence.
  - destruct (String.eqb_spec k k2) as [->|N2]; cbn.
    + destruct (String.eqb_spec k' k2); congruence.
    + destruct (String.eqb_spec k' k2); auto.
Qed.

Definition str_of (j : json) : option string :=
  match j with JStr s => Some s | _ => None end.

Definition arr_of (j : json) : option (list json) :=
  match j with JArr l => Some l | _ => None end.

Definition obj_of (j : json) : option obj :=
  match j with JObj m => Some m | _ => None end.
